"""C14 — PCovR's projectors form a consistent, nested, orthogonal decomposition.

Theorems: coq/Properties/C14.v (programs of coq/Model/PCovR.v over any real closed field).
Correspondence: the same programs run on binary64 inside Coq (vm_compute) against the
implementation's sign-/basis-invariant outputs for every generated fit; the LAPACK oracles
are numpy decompositions of the matrices the model forms, their hypotheses' residuals are
evaluated on the float side and recorded.

Extension (round 3, harness/c14_ext.py): family `solvers` (arpack / randomized / auto /
n_components=None through the same programs) and the exact layer-D family `fitctl`
(coq/Model/PCovRFit.v: control flow, raised errors and shape book-keeping of fit).
"""
import warnings

import numpy as np

from harness import common as C
from harness import pcovr_common as P
from harness import c14_ext as X

MAX_REPORTS = 25          # replay files written per run (a broken tree fails hundreds of cases)


def report(ctx, *a, **kw):
    if len(ctx.violations) < MAX_REPORTS:
        C.report_violation(ctx, *a, **kw)
    else:
        ctx.suppressed = getattr(ctx, "suppressed", 0) + 1

KEY_PRE1D = "pcovr_precomputed_1d_y_sample_space"


def gen_groups(ctx):
    """A group = one dataset, one regressor, one mixing, one space, every k."""
    rng = ctx.rng
    ngroups = 190 if ctx.quick else 900
    groups = []
    fams = list(P.FAMILIES)
    for gi in range(ngroups):
        ds = P.gen_dataset(rng, ctx.quick, family=fams[gi % len(fams)] if gi < 2 * len(fams) else None)
        base = P.gen_config(rng, ds)
        if gi % 7 == 3:
            base["a"] = 1.0
        if gi % 11 == 5:
            base["a"] = 0.0
        kmax = min(ds["n"], ds["m"])
        spaces = ["feature", "sample"] if rng.random() < 0.7 else [rng.choice(["auto", "feature", "sample"])]
        for sp in spaces:
            cfgs = [dict(base, space=sp, k=k) for k in range(1, kmax + 1)]
            groups.append((ds, cfgs))
    # extension (round 3): truncated / automatic solvers and n_components=None through the same model
    groups.extend(X.gen_solver_groups(rng, ctx.quick))
    # data in small units: eigenvalues of X^T X between rcond and 1e-6
    groups.extend(X.gen_smallunit_groups(rng, ctx.quick))
    # round 4: designs with exactly / numerically repeated eigenvalues (nestedness inside an eigenspace)
    groups.extend(X.gen_repeated_groups(rng, ctx.quick))
    # round 4: integer-valued centred data (float64 here; other presentations in run_presentations)
    ctx.c14_int_groups = X.gen_int_groups(rng, ctx.quick)
    groups.extend(ctx.c14_int_groups)
    return groups


def run_fit(ds, cfg):
    try:
        # k_default: n_components=None is passed; cfg["k"] then holds the resolved n_components_
        est, Ym, Yh, W = P.fit_impl(ds, dict(cfg, k=None) if cfg.get("k_default") else cfg)
    except Exception as e:                      # noqa
        return dict(error=type(e).__name__, error_msg=str(e)[:200])
    try:
        obs, T = P.observe(est, ds, Ym)
    except Exception as e:                      # noqa  (a public method of the fitted estimator raised)
        return dict(error=type(e).__name__, error_msg="after a successful fit, transform/predict/score raised: " + str(e)[:160])
    return dict(est=est, Ym=Ym, Yh=Yh, W=W, obs=obs, T=T)


def oracle(ds, cfg, rec, gate_reason, S_full):
    """Direct statement of C14 on the implementation's outputs.  None or a message."""
    if "error" in rec:
        return "fit raised %s: %s" % (rec["error"], rec["error_msg"])
    est, X, Xn = rec["est"], ds["X"], ds["Xn"]
    k = cfg["k"]
    y1d = cfg["y1d"]
    # the retained eigenvalues are squared norms: singular_values_ = sqrt(S) must be finite and
    # explained_variance_ = S / (n - 1) non-negative, also for masked components / k above the rank
    # (Base/MExp.v's fmaxabs skips NaN entries, so the Coq-side comparison does not see a NaN)
    for nm in ("singular_values_", "explained_variance_", "pxt_", "ptx_", "pty_", "pxy_"):
        if not np.all(np.isfinite(np.asarray(getattr(est, nm), dtype=float))):
            return "%s is not finite (%s)" % (nm, np.array2string(np.asarray(getattr(est, nm), dtype=float).ravel()[:6], precision=3))
    if np.any(np.asarray(est.explained_variance_) < 0):
        return "explained_variance_ has a negative entry (%.3g): the retained eigenvalues are squared norms" % float(np.min(est.explained_variance_))
    if any(not np.all(np.isfinite(o)) for o in rec["obs"]):
        bad = [P.OUTPUT_NAMES[i] for i, o in enumerate(rec["obs"]) if not np.all(np.isfinite(o))]
        return "non-finite outputs %s" % bad
    # 1-D / 2-D bookkeeping
    want = 1 if y1d else 2
    with warnings.catch_warnings():
        warnings.simplefilter("ignore")
        pred = est.predict(X)
        predn = est.predict(Xn)
    if est.pxy_.ndim != want or est.pty_.ndim != want or pred.ndim != want or predn.ndim != want:
        return "y of dimension %d gave pxy_/pty_/predictions of dimensions %s" % (
            want, (est.pxy_.ndim, est.pty_.ndim, pred.ndim, predn.ndim))
    if est.pxt_.shape != (ds["m"], k) or est.ptx_.shape != (k, ds["m"]):
        return "projector shapes %s %s" % (est.pxt_.shape, est.ptx_.shape)
    if y1d:
        cfg2 = dict(cfg, y1d=False)
        rec2 = run_fit(ds, cfg2)
        if "error" in rec2:
            return "the same fit with y as a column raises: " + rec2["error_msg"]
        p2 = rec2["est"].predict(X)[:, 0]
        if gate_reason is None and not np.allclose(pred, p2, rtol=1e-6, atol=1e-8 * (1 + np.abs(p2).max())):
            return "predictions for 1-D y differ from those for the same y as a column (max dev %.3g)" % (
                np.abs(pred - p2).max())
    if gate_reason is not None or not ds["centred"]:
        return None
    T = rec["T"]
    sc = 1 + np.abs(T).max()
    tol7 = 1e-7
    if np.abs(T - X @ est.pxt_).max() > tol7 * sc:
        return "transform(X) != X @ pxt_"
    mask = (est.singular_values_ ** 2 > est.tol).astype(float)
    rt = est.ptx_ @ est.pxt_
    if np.abs(rt - np.diag(mask)).max() > 1e-6:
        return "ptx_ @ pxt_ is not the identity on the retained components (max dev %.3g)" % (
            np.abs(rt - np.diag(mask)).max())
    with warnings.catch_warnings():
        warnings.simplefilter("ignore")
        back = est.transform(est.inverse_transform(T))
        pt = est.predict(T=T)
    if np.abs(back - T).max() > 1e-6 * sc:
        return "transform(inverse_transform(T)) != T (max dev %.3g)" % np.abs(back - T).max()
    if np.abs(np.asarray(pt) - np.asarray(pred)).max() > tol7 * (1 + np.abs(pred).max()):
        return "predict(X) != predict(T=transform(X))"
    G = T.T @ T
    S = est.singular_values_ ** 2
    if np.abs(G - np.diag(S * mask)).max() > 1e-7 * (1 + S.max()):
        return "T^T T is not diag(retained eigenvalues) (max dev %.3g)" % np.abs(G - np.diag(S * mask)).max()
    Ysc = rec["Ym"] if not y1d else rec["Ym"][:, 0]
    with warnings.catch_warnings():
        warnings.simplefilter("ignore")
        s = est.score(X, Ysc)
        xr = est.inverse_transform(T)
    lx = np.linalg.norm(X - xr) ** 2 / np.linalg.norm(X) ** 2
    ly = np.linalg.norm(Ysc - pt) ** 2 / np.linalg.norm(Ysc) ** 2
    if abs(s + lx + ly) > 1e-9 * (1 + abs(s)):
        return "score != -(l_X + l_Y)"
    return None


def oracle_nested(ds, cfgs, recs, gates):
    """full solver: components for k are the first k of those for k+1; losses never increase."""
    prev = None
    for cfg, rec, g in zip(cfgs, recs, gates):
        if "error" in rec or cfg["solver"] != "full":
            prev = None
            continue
        est = rec["est"]
        X = ds["X"]
        with warnings.catch_warnings():
            warnings.simplefilter("ignore")
            T = rec["T"]
            lx = np.linalg.norm(X - est.inverse_transform(T)) ** 2
            ly = np.linalg.norm(rec["Ym"] - np.asarray(est.predict(T=T)).reshape(rec["Ym"].shape)) ** 2
        cur = dict(k=cfg["k"], pxt=est.pxt_, ptx=est.ptx_, pty=est.pty_.reshape(cfg["k"], -1), lx=lx, ly=ly, g=g)
        if prev is not None and prev["k"] + 1 == cur["k"]:
            k = prev["k"]
            sc = 1 + max(np.abs(cur["pxt"]).max(), np.abs(cur["ptx"]).max())
            for nm, A, B in (("pxt_", prev["pxt"], cur["pxt"][:, :k]), ("ptx_", prev["ptx"], cur["ptx"][:k]),
                             ("pty_", prev["pty"], cur["pty"][:k])):
                if np.abs(A - B).max() > 1e-9 * sc:
                    return cfg, "%s for k=%d is not the first %d components of k=%d (max dev %.3g)" % (
                        nm, k, k, k + 1, np.abs(A - B).max())
            if ds["centred"] and prev["g"] is None and cur["g"] is None:
                if cur["lx"] > prev["lx"] + 1e-8 * (1 + prev["lx"]):
                    return cfg, "reconstruction loss increases from k=%d to k=%d" % (k, k + 1)
                if cur["ly"] > prev["ly"] + 1e-8 * (1 + prev["ly"]):
                    return cfg, "regression loss increases from k=%d to k=%d" % (k, k + 1)
        prev = cur
    return None


def case_replay(ds, cfg):
    return dict(dataset=P.jsonable({k: ds[k] for k in ("family", "n", "m", "p", "q", "X", "Y", "Xn", "Yn", "centred")}),
                config=cfg)


def run(ctx):
    po = C.proof_obligations(ctx.prop)
    groups = gen_groups(ctx)
    writer = P.CoqCases()
    cases = {}                       # id -> (ds, cfg, rec, gate, S_full)
    stats = dict(families={}, spaces={}, regressors={}, mixing={"0": 0, "1": 0, "interior": 0},
                 y1d=0, masked_components=0, skipped={}, fit_errors=0, k_hist={},
                 not_centred=0, solvers={}, fit_svd_solver_={}, default_components=0,
                 smallunit_fits_with_eigenvalue_in_cutoff_window=0)
    cid = 0
    nested_viol = []
    for ds, cfgs in groups:
        recs, gates = [], []
        for cfg in cfgs:
            rec = run_fit(ds, cfg)
            g, S_full = None, None
            if "error" not in rec:
                if cfg.get("k_default"):
                    cfg["k"] = int(rec["est"].n_components_)
                    stats["default_components"] += 1
                sample = P.is_sample(ds, cfg)
                env, mn, S_full, _ = P.build_env(ds, rec["Ym"], rec["Yh"], rec["W"], cfg, sample)
                g = P.gate(mn, S_full, cfg["k"], sample=sample) or P.regressor_gate(ds["X"], rec["W"], rec["Yh"])
                if g is None and cfg["solver"] != "full":
                    g = X.solver_gate(S_full, cfg["k"])
                stats["solvers"][cfg["solver"]] = stats["solvers"].get(cfg["solver"], 0) + 1
                fs = rec["est"].fit_svd_solver_
                stats["fit_svd_solver_"][fs] = stats["fit_svd_solver_"].get(fs, 0) + 1
                if g is None:
                    writer.add(cid, ds["n"], ds["m"], ds["p"], cfg["k"], ds["q"], sample, env, rec["obs"])
                else:
                    stats["skipped"][g] = stats["skipped"].get(g, 0) + 1
                stats["masked_components"] += int(np.sum(S_full[:cfg["k"]] <= P.TOL))
            else:
                stats["fit_errors"] += 1
            cases[cid] = (ds, cfg, rec, g, S_full)
            recs.append(rec)
            gates.append(g)
            cid += 1
            stats["families"][ds["family"]] = stats["families"].get(ds["family"], 0) + 1
            stats["spaces"][cfg["space"]] = stats["spaces"].get(cfg["space"], 0) + 1
            stats["regressors"][cfg["reg"]] = stats["regressors"].get(cfg["reg"], 0) + 1
            stats["mixing"]["0" if cfg["a"] == 0 else "1" if cfg["a"] == 1 else "interior"] += 1
            stats["y1d"] += cfg["y1d"]
            stats["not_centred"] += not ds["centred"]
            if ds["family"] == "smallunit" and g is None and "error" not in rec and not P.is_sample(ds, cfg):
                stats["smallunit_fits_with_eigenvalue_in_cutoff_window"] += int(X.in_cutoff_window(ds["X"]))
            stats["k_hist"][str(cfg["k"])] = stats["k_hist"].get(str(cfg["k"]), 0) + 1
        nv = oracle_nested(ds, cfgs, recs, gates)
        if nv:
            nested_viol.append((ds, nv[0], nv[1]))
    # extension (round 3): histories of one estimator object (refits); every stage is also a case of
    # the Coq single-fit model and of the oracle below
    cid, hist_reports, refit_stats = X.run_histories(ctx, writer, cases, cid)
    reports, broken, _ = P.run_cases(ctx.prop, writer)
    # extension (round 3): control flow and shape book-keeping of fit (layer D, exact)
    fitctl_stats, fitctl_agree = X.run_fitctl(ctx, report)
    for what, robj, found in hist_reports:
        report(ctx, what, robj, found_input=found)
    # extension (round 4): fit_transform against fit().transform() and the model's transform
    ft_stats = X.run_fit_transform(ctx, report)
    # extension (round 4): the same data as int64 / int32 / list / Fortran order / float32
    pres_stats = X.run_presentations(ctx, report, ctx.c14_int_groups)
    # extension (round 6): randomized solver with min(n, m) > k + 10
    big_stats = X.run_big_randomized(ctx, report)
    # verdicts
    dev_max = [0.0] * len(P.OUTPUT_NAMES)
    res_max = [0.0] * len(P.RESIDUAL_NAMES)
    agree = 0
    mism = []
    for c, r in reports.items():
        for i, d in enumerate(r["dev"]):
            dev_max[i] = max(dev_max[i], d)
        for i, d in enumerate(r["res"]):
            res_max[i] = max(res_max[i], d)
        if all(r["ok_out"]) and all(r["ok_hyp"]) and len(r["ok_out"]) == len(P.OUTPUT_NAMES):
            agree += 1
        else:
            mism.append(c)
    n_search = 0
    pre1d_reported = 0
    for c, (ds, cfg, rec, g, S_full) in cases.items():
        msg = oracle(ds, cfg, rec, g, S_full)
        n_search += 1
        pre1d = cfg["reg"] in ("pre_W", "pre_noW") and cfg["y1d"] and P.is_sample(ds, cfg)
        if pre1d and (msg or c in mism):
            pre1d_reported += 1
            if pre1d_reported > 1:          # one replay of the known defect is enough
                continue
        if msg:
            report(ctx, "C14 fails on the implementation: " + msg, dict(case=case_replay(ds, cfg)),
                               key=KEY_PRE1D if pre1d else None, found_input=True)
        elif c in mism:
            r = reports[c]
            bad_o = [P.OUTPUT_NAMES[i] for i, b in enumerate(r["ok_out"]) if not b]
            bad_h = [P.RESIDUAL_NAMES[i] for i, b in enumerate(r["ok_hyp"]) if not b]
            report(
                ctx, "correspondence PCovR model vs implementation broken: outputs %s, oracle hypotheses %s" % (bad_o, bad_h),
                dict(case=case_replay(ds, cfg), deviations=r["dev"], residuals=r["res"],
                     correspondence="pc_report (Model/PCovR.v)"),
                key=KEY_PRE1D if pre1d else None, found_input=False)
    for ds, cfg, msg in nested_viol:
        report(ctx, "C14 fails on the implementation: " + msg, dict(case=case_replay(ds, cfg), nested=True),
                           found_input=True)
    for txt in broken:
        report(ctx, "correspondence shard did not evaluate", dict(coq_output=txt), found_input=False)
    if not po["ok"]:
        report(ctx, "proof obligations of Properties/C14.v not discharged",
                           dict(theorem_file="coq/Properties/C14.v", log=po["log"][-2000:], scan=po["scan"],
                                disallowed_axioms=po.get("disallowed_axioms")), found_input=False)
    # distinct non-trivial: 0 < a <= 1 (C14's range), 1 <= k < numeric rank, compared in Coq
    nontrivial = 0
    seen = set()
    for c, (ds, cfg, rec, g, S_full) in cases.items():
        if c in reports and cfg["a"] > 0 and S_full is not None and cfg["k"] < P.numeric_rank(S_full):
            h = (ds["X"].tobytes(), cfg["a"], cfg["k"], cfg["space"], cfg["reg"], cfg["alpha"], cfg["y1d"], cfg["solver"])
            if h not in seen:
                nontrivial += 1
            seen.add(h)
    _, changed = C.drift_report(ctx.prop, P.ANCHORS)
    sample_ids = sorted(reports)[:2]
    stats["output_deviation_max"] = dict(zip(P.OUTPUT_NAMES, dev_max))
    stats["oracle_hypothesis_residual_max"] = dict(zip(P.RESIDUAL_NAMES, res_max))
    stats["skipped_total"] = sum(stats["skipped"].values())
    stats["precomputed_1d_y_sample_space_failures"] = pre1d_reported
    cov = dict(obligations=po["obligations"], discharged=po["discharged"], checker_cmd=po["checker_cmd"],
               theorems=po["theorems"], axioms=po["axioms"],
               trusted_base=C.TRUSTED_BASE_COMMON + [
                   "binary64 evaluation of the model (Coq PrimFloat) agrees with the real-closed-field semantics up to rounding: compared with rtol %g" % P.RTOL,
                   "numpy eigh/svd/lstsq answers are accepted as oracle hints only after their hypotheses' residuals are checked on the float side (eps %g)" % P.EPS_HYP,
                   "layer-D model coq/Model/PCovRFit.v of fit's control flow and shapes: tied by the exact family fitctl (error kind recognised by message; sklearn's coef_ shape is an oracle contract checked per run)"],
               evaluations=len(cases) + fitctl_stats["cases"], distinct_nontrivial=nontrivial,
               fitctl=fitctl_stats, refit=refit_stats, fit_transform=ft_stats, presentations=pres_stats, big_randomized=big_stats,
               rule="centred/offset X of families %s, every k, both spaces; non-trivial = distinct fit compared inside Coq with mixing > 0 and k < numeric rank of the modified matrix (solvers full/arpack/randomized/auto); the fitctl configurations are counted in evaluations only" % ",".join(P.FAMILIES),
               traces_validated_against_impl=agree + fitctl_agree,
               samples=[dict(case=case_replay(cases[i][0], cases[i][1]), report=reports[i]) for i in sample_ids],
               distribution=stats, anchor_drift=changed, oracle_runs=n_search,
               tolerances=dict(rtol=P.RTOL, atol=P.ATOL, eps_hypotheses=P.EPS_HYP, gap_min=P.GAP_MIN))
    return C.finish(ctx, "proof", cov,
                    ["theorems are over an arbitrary real closed field: IEEE rounding is outside them",
                     "LAPACK/ARPACK results enter as oracle hypotheses, validated numerically per run",
                     "hypothesis `eigenvalues of X^T X discarded by rcond are exactly zero` idealises numerical rank"])


def replay(ctx, obj):
    c = obj["case"]
    if "bigrand" in c:
        msg = X.replay_bigrand(c["bigrand"])
        print("replay:", msg or "property holds on this input now")
        return 1 if msg else 0
    if "presentation" in c:
        msg = X.replay_presentation(c["presentation"])
        print("replay:", msg or "property holds on this input now")
        return 1 if msg else 0
    if "fit_transform" in c:
        msg = X.replay_fit_transform(c["fit_transform"])
        print("replay:", msg or "property holds on this input now")
        return 1 if msg else 0
    if "refit" in c:
        msg = X.replay_refit(c["refit"])
        print("replay:", msg or "property holds on this input now")
        return 1 if msg else 0
    if "fitctl" in c:
        msg = X.replay_fitctl(c["fitctl"])
        print("replay:", msg or "property holds on this input now")
        return 1 if msg else 0
    ds = P.ds_from_json(c["dataset"])
    cfg = c["config"]
    if cfg.get("refit"):
        msg = X.replay_refit(cfg["refit"])
        print("replay:", msg or "property holds on this input now")
        return 1 if msg else 0
    if c.get("nested") or obj.get("nested"):
        kmax = min(ds["n"], ds["m"])
        cfgs = [dict(cfg, k=k) for k in range(1, kmax + 1)]
        recs = [run_fit(ds, cf) for cf in cfgs]
        nv = oracle_nested(ds, cfgs, recs, [None] * len(cfgs))
        print("replay:", nv[1] if nv else "property holds on this input now")
        return 1 if nv else 0
    rec = run_fit(ds, cfg)
    g, S_full = None, None
    if "error" not in rec:
        sample = P.is_sample(ds, cfg)
        _, mn, S_full, _ = P.build_env(ds, rec["Ym"], rec["Yh"], rec["W"], cfg, sample)
        g = P.gate(mn, S_full, cfg["k"], sample=sample) or P.regressor_gate(ds["X"], rec["W"], rec["Yh"])
    msg = oracle(ds, cfg, rec, g, S_full)
    print("replay:", msg or "property holds on this input now")
    return 1 if msg else 0
