"""C02 helper — PCov-FPS / FPS on FLOAT data.

Family "dist" (both directions of PCov-FPS): one case = one history of fits of ONE selector
object (optional earlier fit on other data / with another mixing, optional warm-started
continuation), after which

 (1) `pcovr_distance_` is compared ENTRYWISE, inside Coq, with the float evaluation of the
     layer-A programs `cov_prog` (features: pcovr_covariance) / `kern_prog` (samples:
     pcovr_kernel) of coq/Model/PCovR.v, fed with numpy's eigh of the matrix the model forms
     (oracle hints, residuals checked)                       -> coq/Model/PCovFPSDist.v,
 (2) the selection loop is replayed bit for bit on the implementation's own matrix
     (coq/Model/FPSFloat.v),
 (3) on disagreement the brute-force property oracle below decides whether C02 itself fails:
     the true distances are recomputed INDEPENDENTLY (thin SVD of X for the modified
     covariance, coordinate differences for the modified Gram matrix).

Family "fpsfloat": plain FPS on float data, both directions, brute-force oracle only
(X[l] @ X.T goes through BLAS, so there is no bit-exact replay); acceptance is tie-aware
with a tolerance proportional to the largest squared norm (the rounding of
norms + norms[l] - 2 <.,.>).
"""
import ast
import re
import warnings

import numpy as np

from harness import common as C
from harness import selectors as S

RCOND = 1e-12        # default rcond of pcovr_covariance (PCovFPS does not override it)
RTOL = 1e-7          # model matrix vs pcovr_distance_, entrywise, relative to the largest entry
ATOL = 0.0
EPS_HYP = 1e-9       # eigh hypotheses: residual <= EPS_HYP * (1 + scale)
COND_MAX = 1e6       # largest admitted ratio of retained eigenvalues of X^T X
ORACLE_RTOL = 1e-7   # brute-force oracle: relative to the largest true distance

SHAPES = ["tall", "wide", "square", "wide", "tall"]
STRUCT = ["normal", "colscaled", "rankdef", "dups", "normal"]


def _np_rng(rng):
    return np.random.default_rng(rng.getrandbits(62))


def gen_data(rng, quick, shape=None, struct=None):
    g = _np_rng(rng)
    hi = 8 if quick else 14
    shape = shape or rng.choice(SHAPES)
    struct = struct or rng.choice(STRUCT)
    if shape == "tall":
        m = rng.randint(2, hi - 1)
        n = rng.randint(m + 1, hi)
    elif shape == "wide":
        n = rng.randint(2, hi - 1)
        m = rng.randint(n + 1, hi)
    else:
        n = m = rng.randint(3, hi)
    if struct == "rankdef":
        r = rng.randint(1, max(1, min(n, m) - 1))
        X = g.normal(size=(n, r)) @ g.normal(size=(r, m))
    elif struct == "dups":
        X = g.normal(size=(n, m))
        for _ in range(rng.randint(1, 2)):
            if rng.random() < 0.5 and m > 2:
                j, k = rng.sample(range(m), 2)
                X[:, j] = X[:, k]
            elif n > 2:
                j, k = rng.sample(range(n), 2)
                X[j] = X[k]
    else:
        X = g.normal(size=(n, m))
    if struct == "colscaled":
        X = X * g.uniform(0.5, 2.5, size=(1, m))
    p = rng.choice([1, 1, 2, 3])
    Y = X @ g.normal(size=(m, p)) + rng.choice([0.1, 0.5, 1.0]) * g.normal(size=(n, p))
    sp = rng.choice([0, 0, 0, 3, -3, 6, -6])         # exact power-of-two rescaling of X
    X = X * 2.0 ** sp
    return dict(shape=shape, struct=struct, scale_pow=sp, X=X.tolist(), Y=Y.tolist(), p=p)


def gen_dist_case(rng, quick, shape=None):
    c = gen_data(rng, quick, shape=shape)
    n, m = len(c["X"]), len(c["X"][0])
    c["axis"] = rng.choice([1, 1, 0])
    ncand = m if c["axis"] == 1 else n
    c["mixing"] = rng.choice([0.0, 0.1, 0.5, 0.9, round(rng.uniform(0.01, 0.99), 3)])
    c["y1d"] = bool(c["p"] == 1 and rng.random() < 0.5)
    if rng.random() < 0.2:
        c["init"] = "random"
        c["random_state"] = rng.choice([0, 1, 7, 12345])
    else:
        c["init"] = rng.randrange(ncand)
        if rng.random() < 0.3:
            c["init"] -= ncand                      # numpy-style negative index of the same item
        c["random_state"] = 0
    c["nts"] = rng.randint(1, ncand)
    r = rng.random()
    if r < 0.25:
        # the same object was fitted before: other data (any shape) and another mixing
        # (other data of any shape / other data of the SAME shape / the same data, other mixing:
        # nothing of the earlier fit may survive a cold fit)
        how = rng.choice(["any", "same_shape", "same_data"])
        if how == "any":
            pre = gen_data(rng, quick)
        elif how == "same_shape":
            g = _np_rng(rng)
            pre = dict(X=(g.normal(size=(n, m)) * 2.0 ** c["scale_pow"]).tolist(),
                       Y=g.normal(size=(n, c["p"])).tolist())
        else:
            pre = dict(X=c["X"], Y=c["Y"])
        pn, pm = len(pre["X"]), len(pre["X"][0])
        pc = pm if c["axis"] == 1 else pn
        c["prefit"] = dict(how=how, X=pre["X"], Y=pre["Y"],
                           mixing=rng.choice([m_ for m_ in (0.0, 0.3, 0.8) if m_ != c["mixing"]]),
                           nts=rng.randint(1, pc), init=rng.randrange(pc) - (pc if rng.random() < 0.3 else 0))
    elif r < 0.45 and c["nts"] >= 2:
        # cold fit with fewer selections, then warm-started continuation on the same data
        c["warm_from"] = rng.randint(1, c["nts"] - 1)
    return c


def _Y(c):
    Y = np.array(c["Y"], float)
    return Y[:, 0].copy() if c.get("y1d") else Y


def run_dist_impl(c):
    kw = dict(mixing=c["mixing"], initialize=c["init"], n_to_select=c["nts"])
    if c.get("random_state", 0) != 0:
        kw["random_state"] = c["random_state"]
    sel = S.make_selector("pcovfps", c["axis"], **kw)
    X, Y = np.array(c["X"], float), _Y(c)
    try:
        with warnings.catch_warnings():
            warnings.simplefilter("ignore")
            pre = c.get("prefit")
            if pre is not None:
                sel.set_params(mixing=pre["mixing"], initialize=pre["init"], n_to_select=pre["nts"])
                sel.fit(np.array(pre["X"], float), np.array(pre["Y"], float))
                sel.set_params(mixing=c["mixing"], initialize=c["init"], n_to_select=c["nts"])
            if c.get("warm_from"):
                sel.set_params(n_to_select=c["warm_from"])
                sel.fit(X, Y)
                sel.set_params(n_to_select=c["nts"])
                sel.fit(X, Y, warm_start=True)
            else:
                sel.fit(X, Y)
    except Exception as e:      # noqa
        return dict(error=type(e).__name__, error_msg=str(e)[:200])
    ncand = X.shape[c["axis"]]
    out = dict(D=[[float(v) for v in r] for r in np.asarray(sel.pcovr_distance_)],
               sel=norm_list(sel.selected_idx_, ncand), sel_raw=[int(i) for i in sel.selected_idx_],
               haus=[float(v) for v in sel.get_distance()],
               seld=[float(v) for v in sel.get_select_distance()])
    if c["init"] == "random":
        # reproducibility: a fresh object with the same parameters on the same data
        sel2 = S.make_selector("pcovfps", c["axis"], **kw)
        try:
            with warnings.catch_warnings():
                warnings.simplefilter("ignore")
                sel2.fit(X, Y)
            out["sel_again"] = norm_list(sel2.selected_idx_, ncand)
        except Exception as e:      # noqa
            out["sel_again"] = ["raised " + type(e).__name__]
    return out


def hints(c):
    """numpy's eigh of the matrix the model forms (X^T X), flipped to decreasing order, and the
    gate: None if the matrix comparison is well conditioned, else the reason it is skipped."""
    X = np.array(c["X"], float)
    if c["axis"] == 0:
        return None, None, None
    v, U = np.linalg.eigh(X.T @ X)
    v, U = v[::-1].copy(), U[:, ::-1].copy()
    g = None
    if np.any((np.abs(v) > RCOND / 10) & (np.abs(v) < RCOND * 10)):
        g = "eigenvalue of X^T X within a factor 10 of rcond"
    else:
        kept = v[v > RCOND]
        if len(kept) and kept[0] / kept[-1] > COND_MAX:
            g = "X^T X ill conditioned on its retained range"
    return U, v, g


def dist_case_coq(c, r, mat):
    X = np.array(c["X"], float)
    Y = np.array(c["Y"], float)
    n, m = X.shape
    U, v, _ = hints(c)
    if U is None:
        U, v = np.zeros((0, 0)), np.zeros((0,))
    env = [X, Y, Y, np.zeros((0, 0)), np.array([[c["mixing"]]]), np.array([[RCOND]]), U, v.reshape(-1, 1)]
    return "mk_dcase %d %d %d %s [%s] %s %d %d %s %s %s" % (
        n, m, Y.shape[1], "true" if c["axis"] == 1 else "false", "; ".join(mat(A) for A in env),
        mat(np.array(r["D"])), r["sel"][0], c["nts"], C.natlist(r["sel"]), C.flist(r["haus"]), C.flist(r["seld"]))


class Shards:
    """dcase shards, byte-budgeted, every distinct matrix interned once per shard."""

    def __init__(self, max_bytes=260000, max_cases=120):
        self.max_bytes, self.max_cases = max_bytes, max_cases
        self.shards = []
        self._reset()

    def _reset(self):
        self.defs, self.names, self.cases, self.ids, self.size = [], {}, [], [], 0

    def mat(self, A):
        A = np.asarray(A, dtype=float)
        if A.ndim != 2:
            A = np.atleast_2d(A)
        key = (A.shape, A.tobytes())
        if key not in self.names:
            name = "m%d" % len(self.names)
            d = "Definition %s : fmat := %s.\n" % (name, C.fmat(A.tolist()) if A.size else "[]")
            self.defs.append(d)
            self.size += len(d)
            self.names[key] = name
        return self.names[key]

    def add(self, cid, c, r):
        d = "Definition c%d : dcase := %s.\n" % (cid, dist_case_coq(c, r, self.mat))
        self.defs.append(d)
        self.size += len(d)
        self.cases.append("c%d" % cid)
        self.ids.append(cid)
        if self.size > self.max_bytes or len(self.cases) >= self.max_cases:
            self.flush()

    def flush(self):
        if not self.cases:
            return
        body = (C.SHARD_HEAD + "From Coq Require Import List PrimFloat.\nImport ListNotations.\n"
                "From Verif Require Import MExp PCovR PCovFPSDist.\nOpen Scope float_scope.\n"
                + "".join(self.defs)
                + "Definition cases : list dcase := [" + "; ".join(self.cases) + "].\n"
                + "Eval vm_compute in (map (dc_code %s %s %s) cases).\n" % (C.fl(RTOL), C.fl(ATOL), C.fl(EPS_HYP))
                + "Eval vm_compute in (map dc_devs cases).\n")
        self.shards.append((body, list(self.ids)))
        self._reset()


def parse_float_lists(out):
    """the value printed by the second Eval (list (list float)), or None."""
    flat = out.replace("\n", " ")
    m = re.search(r"=\s*(\[\s*\[.*\]\s*\])\s*:\s*list \(list float\)", flat)
    if not m:
        return None
    t = m.group(1).replace(";", ",")
    t = re.sub(r"\bneg_infinity\b", "'-inf'", t)
    t = re.sub(r"\binfinity\b", "'inf'", t)
    t = re.sub(r"\bnan\b", "'nan'", t)
    t = re.sub(r"%float", "", t)
    try:
        v = ast.literal_eval(t)
    except Exception:       # noqa
        return None
    return [[float(x) for x in row] for row in v]


# ------------------------------------------------------------------ property oracle (search)
def modified_covariance(mixing, X, Y, rcond=RCOND):
    """a X^T X + (1-a) (X^T X)^(-1/2) X^T Y Y^T X (X^T X)^(-1/2) from a thin SVD of X
    (X = U S V^T: (X^T X)^(-1/2) X^T Y = V U^T Y on the retained range S^2 > rcond)."""
    U, s, Vt = np.linalg.svd(X, full_matrices=False)
    keep = s ** 2 > rcond
    U, s, Vt = U[:, keep], s[keep], Vt[keep]
    CY = Vt.T @ (U.T @ Y)
    return mixing * (X.T @ X) + (1 - mixing) * (CY @ CY.T)


def true_distances(c):
    """(true distance table, magnitude of the matrix it is read from).  The implementation forms
    d = M_ii + M_jj - 2 M_ij, so its rounding error is proportional to max |M|, not to max d."""
    X = np.array(c["X"], float)
    Y = np.array(c["Y"], float)
    a = c["mixing"]
    if c["axis"] == 1:
        M = modified_covariance(a, X, Y)
        d = np.diag(M)
        return d[:, None] + d[None, :] - 2 * M, float(np.abs(M).max(initial=0))
    dx = ((X[:, None, :] - X[None, :, :]) ** 2).sum(axis=2)
    dy = ((Y[:, None, :] - Y[None, :, :]) ** 2).sum(axis=2)
    # scale of the matrix the distances are read from: the largest diagonal entry of K~
    kmax = float((a * (X ** 2).sum(axis=1) + (1 - a) * (Y ** 2).sum(axis=1)).max(initial=0))
    return a * dx + (1 - a) * dy, kmax


def brute_force(D, sel, seld, table, ninit, tol):
    """C02 on one run against the distance table D (tie-aware up to tol). None or a message."""
    n = len(D)
    if len(set(sel)) != len(sel):
        return "duplicate selection %s" % sel
    for t in range(max(1, ninit), len(sel)):
        prev = sel[:t]
        mind = D[:, prev].min(axis=1)
        rest = [j for j in range(n) if j not in prev]
        best = max(mind[rest])
        if mind[sel[t]] < best - tol:
            return "step %d picked %d with minimum distance %.9g to the earlier selections, a farthest candidate has %.9g" % (
                t, sel[t], mind[sel[t]], best)
        if abs(seld[t] - mind[sel[t]]) > tol:
            return "select distance at step %d is %.9g, true minimum %.9g" % (t, seld[t], mind[sel[t]])
    if not np.isinf(seld[0]):
        return "select distance of the first selection is %r, not inf" % seld[0]
    fin = np.array(seld[max(1, ninit):])
    if np.any(np.diff(fin) > tol):
        return "select distances increase"
    true_tab = D[:, sel].min(axis=1)
    dev = np.abs(np.array(table) - true_tab).max()
    if not dev <= tol:
        return "distance table differs from the true minimum distances by %.3g (scale %.3g)" % (dev, D.max())
    return None


def draw_check(ncand, random_state, sel0):
    """initialize='random' is modelled as check_random_state(random_state).randint(n_candidates);
    numpy's RandomState is an oracle.  None or a message (a correspondence statement)."""
    want = int(np.random.RandomState(random_state).randint(ncand))
    if sel0 != want:
        return ("initialize='random' (random_state=%s, %d candidates) selected %d first; "
                "RandomState(random_state).randint(n_candidates) is %d" % (random_state, ncand, sel0, want))
    return None


def dist_oracle(c, r):
    if "error" in r:
        return "fit raised %s: %s" % (r["error"], r.get("error_msg"))
    sel = r["sel"]
    ncand = len(c["X"][0]) if c["axis"] == 1 else len(c["X"])
    if len(sel) != c["nts"]:
        return "selected %d items, requested %d" % (len(sel), c["nts"])
    if c["init"] == "random":
        if r.get("sel_again") is not None and r["sel_again"] != sel:
            return "initialize='random' with random_state=%s is not reproducible: %s, then %s on a fresh object" % (
                c.get("random_state", 0), sel, r["sel_again"])
    elif sel[0] != norm_idx(c["init"], ncand):
        return "first selection is item %d, the requested initialize=%d is item %d" % (
            sel[0], c["init"], norm_idx(c["init"], ncand))
    _, _, g = hints(c)
    if g is not None:
        return None             # ill-conditioned distance matrix: only the loop replay applies
    D, mscale = true_distances(c)
    tol = ORACLE_RTOL * max(float(np.abs(D).max()), mscale, 1e-300)
    return brute_force(D, sel, r["seld"], r["haus"], 1, tol)


# ------------------------------------------------------------------ plain FPS on float data
def gen_fpsfloat_case(rng, quick):
    g = _np_rng(rng)
    n = rng.randint(3, 12 if quick else 40)
    d = rng.randint(2, 6 if quick else 12)
    fam = rng.choice(["normal", "clustered", "dups", "offset", "colscaled"])
    if fam == "clustered":
        cen = g.normal(size=(rng.randint(2, 4), d)) * 5
        X = cen[g.integers(0, len(cen), size=n)] + 0.1 * g.normal(size=(n, d))
    elif fam == "dups":
        base = g.normal(size=(max(2, n // 2), d))
        X = base[g.integers(0, len(base), size=n)]
    elif fam == "offset":
        X = g.normal(size=(n, d)) + g.uniform(-20, 20, size=(1, d))
    elif fam == "colscaled":
        X = g.normal(size=(n, d)) * (10.0 ** g.integers(-2, 3, size=(1, d)))
    else:
        X = g.normal(size=(n, d))
    axis = rng.choice([0, 1])
    ncand = n if axis == 0 else d
    r = rng.random()
    if r < 0.5:
        init = rng.randrange(ncand)
    elif r < 0.8:
        init = rng.sample(range(ncand), rng.randint(1, min(3, ncand)))
    else:
        init = "random"
    ninit = len(init) if isinstance(init, list) else 1
    init = negate_some(rng, init, ncand)
    c = dict(X=X.tolist(), axis=axis, init=init, nts=rng.randint(ninit, ncand), family=fam,
             dtype=rng.choice(["float64", "float64", "float32", "fortran"]))
    if rng.random() < 0.3 and c["nts"] > ninit:
        c["warm_from"] = rng.randint(ninit, c["nts"] - 1)
    return c


def _fps_X(c):
    X = np.array(c["X"], float)
    if c.get("dtype") == "float32":
        X = X.astype(np.float32)
    elif c.get("dtype") == "fortran":
        X = np.asfortranarray(X)
    return X


def run_fpsfloat_impl(c):
    sel = S.make_selector("fps", c["axis"], initialize=c["init"], n_to_select=c["nts"])
    X = _fps_X(c)
    try:
        with warnings.catch_warnings():
            warnings.simplefilter("ignore")
            if c.get("warm_from"):
                sel.set_params(n_to_select=c["warm_from"])
                sel.fit(X)
                sel.set_params(n_to_select=c["nts"])
                sel.fit(X, warm_start=True)
            else:
                sel.fit(X)
    except Exception as e:      # noqa
        return dict(error=type(e).__name__, error_msg=str(e)[:200])
    ncand = X.shape[c["axis"]]
    return dict(sel=norm_list(sel.selected_idx_, ncand), sel_raw=[int(i) for i in sel.selected_idx_],
                haus=[float(v) for v in sel.get_distance()],
                seld=[float(v) for v in sel.get_select_distance()])


def fpsfloat_oracle(c, r):
    if "error" in r:
        return "fit raised %s: %s" % (r["error"], r.get("error_msg"))
    X = _fps_X(c).astype(float)          # the values the estimator sees (float32 widened exactly)
    cs = X if c["axis"] == 0 else X.T
    n = len(cs)
    sel = r["sel"]
    init = c["init"]
    if init == "random":
        inits = [sel[0]]
    else:
        inits = norm_list(init if isinstance(init, list) else [init], n)
    if sel[:len(inits)] != list(inits):
        return "initial selections are items %s, the requested initialize=%s are items %s" % (sel[:len(inits)], init, inits)
    if len(sel) != c["nts"]:
        return "selected %d items, requested %d" % (len(sel), c["nts"])
    D = ((cs[:, None, :] - cs[None, :, :]) ** 2).sum(axis=2)
    nmax = float((cs ** 2).sum(axis=1).max())
    # rounding of norms_ + norms_[l] - 2 <x_j, x_l>: a few ulps of the largest squared norm per
    # coordinate.  check_array keeps float32 input as float32, so norms and dot products are then
    # rounded to 24 bits (eps = 6e-8) and the admitted deviation is scaled accordingly
    eps = 2e-6 if c.get("dtype") == "float32" else 1e-12
    tol = eps * cs.shape[1] * max(nmax, 1e-300)
    seld = list(r["seld"])
    for t in range(1, len(inits)):        # initial selections: distance at selection is reported too
        want = D[sel[t], sel[:t]].min()
        if abs(seld[t] - want) > tol:
            return "select distance of initial selection %d is %.9g, true minimum %.9g" % (t, seld[t], want)
    return brute_force(D, sel, seld, r["haus"], len(inits), tol)


# ------------------------------------------------------------------ input presentations (exact family)
# The same lattice handed over in another container must give bit-identical results: fit converts
# to float (check_array(dtype=FLOAT_DTYPES)) before anything is computed, so an int8/uint8/... array,
# a nested list, a Fortran-ordered array or a strided view is the same input as its float64 copy.
PRESENTATIONS = ["float64", "float64", "float64", "int8", "uint8", "int16", "int32", "int64", "float32",
                 "list", "fortran", "strided"]
_INT_RANGE = {"int8": (-128, 127), "uint8": (0, 255), "int16": (-2 ** 15, 2 ** 15 - 1),
              "int32": (-2 ** 31, 2 ** 31 - 1), "int64": (-2 ** 62, 2 ** 62)}


def choose_presentation(rng, case):
    """Pick a container for the case's data and adapt the case so that every value is representable
    in it (integer containers: no fractional rescaling; uint8: the lattice is translated to be
    non-negative - the case keeps the translated data, so the model sees what the estimator sees)."""
    p = rng.choice(PRESENTATIONS)
    mats = [case["X"]] + ([case["prefit"]["X"]] if "prefit" in case else [])
    if p in _INT_RANGE:
        if case.get("scale_pow", 0) < 0 or p in ("int8", "uint8", "int16"):
            case["scale_pow"] = 0
        f = 2 ** case.get("scale_pow", 0)
        if p == "uint8":
            for M in mats:
                lo = min(min(r) for r in M)
                for r in M:
                    for k in range(len(r)):
                        r[k] -= lo
        lo, hi = _INT_RANGE[p]
        vals = [v * f for M in mats for r in M for v in r]
        if min(vals) < lo or max(vals) > hi:
            p = "int16" if max(abs(v) for v in vals) < 2 ** 15 else "int64"
    case["present"] = p
    return case


def present(rows, how, is_y=False):
    """rows (list of lists of exactly representable numbers) in the container `how`."""
    if rows is None:
        return None
    A = np.array(rows, dtype=float)
    if how in _INT_RANGE:
        if is_y and how == "uint8":
            return A                      # targets are signed: left as float64
        B = A.astype(how)
        assert (B.astype(float) == A).all(), "presentation %s does not represent the data" % how
        return B
    if how == "float32":
        B = A.astype(np.float32)
        assert (B.astype(float) == A).all(), "presentation float32 does not represent the data"
        return B
    if how == "list":
        return [[int(v) if float(v).is_integer() and abs(v) < 2 ** 53 else float(v) for v in r] for r in A.tolist()]
    if how == "fortran":
        return np.asfortranarray(A)
    if how == "strided":
        big = np.full((2 * A.shape[0] + 1, 3 * A.shape[1] + 2), 777.0)
        big[1::2, 2::3] = A
        return big[1::2, 2::3]            # non-contiguous view, foreign values in between
    return A


def run_chain_present(kind, axis, Xrows, y, init, stages, how, extra=None, scale=1, prefit=None, data_scale=1):
    """harness.selectors.run_chain with the data handed over in the container `how`
    (stage 0 cold, later stages warm-started; optional earlier cold fit on other data)."""
    X = present(Xrows, how)
    Y = present(y, how, is_y=True)
    Xf = np.array(Xrows, dtype=float)
    kw = dict(extra or {})
    if init is not None:
        kw["initialize"] = init
    sel = S.make_selector(kind, axis, **kw)
    if prefit is not None:
        sel.n_to_select = prefit["nts"]
        with warnings.catch_warnings():
            warnings.simplefilter("ignore")
            if prefit.get("y") is None:
                sel.fit(present(prefit["X"], how))
            else:
                sel.fit(present(prefit["X"], how), present(prefit["y"], how, is_y=True))
    out = []
    for si, st in enumerate(stages):
        sel.n_to_select = st["nts"]
        sel.score_threshold = None
        rec = {}
        with warnings.catch_warnings(record=True) as w:
            warnings.simplefilter("always")
            try:
                if Y is None:
                    sel.fit(X, warm_start=(si > 0))
                else:
                    sel.fit(X, Y, warm_start=(si > 0))
                rec["stopped"] = any("Score threshold" in str(x.message) for x in w)
                rec["obs"] = S.observe(sel, Xf, axis, scale, data_scale) if data_scale != 1 else S.observe(sel, Xf, axis, scale)
            except C.InexactOutput:
                raise
            except Exception as e:      # noqa
                rec["error"] = S.err_class(e)
                rec["error_msg"] = str(e)[:200]
        out.append(rec)
        if "error" in rec:
            break
    return out, sel


# ------------------------------------------------------------------ negative initial indices
# `initialize` may be a numpy-style negative index (-1 = last item ... -n = first item), as an int or as
# entries of the list.  What the unchanged code does (probed): norms_/hausdorff_/X[...] are indexed with
# the value as given (so -k addresses item n-k), the arg-max mask scores[selected_idx_] = -inf hides that
# item, and selected_idx_ / get_support(indices=True) KEEP the negative value.  The model and the
# brute-force oracle therefore work with the item n+i; the raw stored value is compared as found.
def negate_some(rng, init, ncand, p=0.3):
    """rewrite some initial indices as their negative equivalent i - n (same items, still distinct)."""
    if init == "random":
        return init
    if isinstance(init, list):
        return [i - ncand if rng.random() < p else i for i in init]
    return init - ncand if rng.random() < p else init


def norm_idx(i, n):
    return i + n if i < 0 else i


def norm_list(l, n):
    return [norm_idx(int(i), n) for i in l]


def has_negative(init):
    if init == "random":
        return False
    return any(i < 0 for i in (init if isinstance(init, list) else [init]))


def raw_index_check(init, sel_raw, sorted_raw=None):
    """selected_idx_ stores the requested initial indices as given (negative values kept), every later
    selection is an arg-max result (>= 0), and get_support(indices=True) is the sorted stored sequence.
    None or a message (a correspondence statement about the bookkeeping, not about distances)."""
    if init == "random":
        given = []
    else:
        given = list(init) if isinstance(init, list) else [init]
    if list(sel_raw[:len(given)]) != given:
        return "selected_idx_ starts with %s, the requested initial indices are %s (stored as given)" % (
            list(sel_raw[:len(given)]), given)
    if any(i < 0 for i in sel_raw[len(given):]):
        return "a selection made by the loop is negative: %s" % list(sel_raw)
    if sorted_raw is not None and list(sorted_raw) != sorted(sel_raw):
        return "get_support(indices=True) = %s is not the sorted selected_idx_ %s" % (list(sorted_raw), sorted(sel_raw))
    return None
