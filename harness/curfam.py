"""C07 helpers: generators, implementation driver, hints and the independent property oracle for
the CUR / PCov-CUR selectors (feature and sample direction).

Nothing here is shared with another property.  skmatter is imported lazily.
"""
import math
import warnings

import numpy as np

from harness import common as C
from harness import selectors as S
from harness.props.c01 import Recorder, bits

TOL = 1e-12            # the selectors' `tolerance` default (also rcond of pcovr_covariance)
FAMILIES = ["int_uniform", "int_small", "int_orth", "int_scaled", "float_uniform", "float_normal",
            "int_lowrank_plus", "int_big", "float_big"]
MIXINGS = [0.0, 0.25, 0.5, 0.75, 1.0, 0.1, 0.9]


# ----------------------------------------------------------------------------- generation
def gen_matrix(rng, n, d, fam):
    if fam == "int_uniform":
        return [[float(rng.randint(-8, 8)) for _ in range(d)] for _ in range(n)]
    if fam == "int_small":
        return [[float(rng.randint(-2, 2)) for _ in range(d)] for _ in range(n)]
    if fam == "int_scaled":
        s = 2 ** rng.randint(1, 4)
        return [[float(s * rng.randint(-8, 8)) for _ in range(d)] for _ in range(n)]
    if fam == "int_orth":
        # integer matrix with some mutually orthogonal columns/rows (signed permutation-like blocks)
        M = [[0.0] * d for _ in range(n)]
        for j in range(d):
            M[rng.randrange(n)][j] = float(rng.choice([-3, -2, -1, 1, 2, 3, 4]))
        for _ in range(rng.randint(0, 3)):
            M[rng.randrange(n)][rng.randrange(d)] += float(rng.randint(-2, 2))
        return M
    if fam == "int_lowrank_plus":
        r = 2
        A = [[rng.randint(-3, 3) for _ in range(r)] for _ in range(n)]
        B = [[rng.randint(-3, 3) for _ in range(d)] for _ in range(r)]
        return [[float(sum(A[i][k] * B[k][j] for k in range(r)) + (rng.randint(-1, 1) if rng.random() < 0.5 else 0))
                 for j in range(d)] for i in range(n)]
    if fam == "float_uniform":
        return [[rng.uniform(-4, 4) for _ in range(d)] for _ in range(n)]
    if fam == "int_big":         # ordinary unscaled data: entries of order 1e4
        return [[float(10000 * rng.randint(-8, 8)) for _ in range(d)] for _ in range(n)]
    if fam == "float_big":
        return [[rng.uniform(-4e4, 4e4) for _ in range(d)] for _ in range(n)]
    if fam == "float_normal":
        return [[rng.gauss(0, 1) * (1 + 3 * (j == 0)) for j in range(d)] for _ in range(n)]
    raise ValueError(fam)


def gen_y(rng, n, p, fam):
    if fam.startswith("float"):
        return [[rng.uniform(-3, 3) for _ in range(p)] for _ in range(n)]
    return [[float(rng.randint(-6, 6)) for _ in range(p)] for _ in range(n)]


def gen_case(rng, quick, force=None):
    """One chain of fits.  The rank of X exceeds the number of selections (the property's domain)."""
    force = force or {}
    nmax, dmax = (7, 6) if quick else (10, 8)
    for _ in range(200):
        kind = force.get("kind") or rng.choice(["cur", "pcovcur"])
        axis = force.get("axis", rng.choice([0, 1]))
        n = rng.randint(3, nmax)
        d = rng.randint(3, dmax)
        # strongly rectangular shapes (more than 4x taller / wider): shape-dependent shortcuts
        r_shape = rng.random()
        if r_shape < 0.12:
            d = 3
            n = rng.randint(4 * d + 1, 4 * d + 5)
        elif r_shape < 0.2:
            n = 3
            d = rng.randint(4 * n + 1, 4 * n + 5)
        fam = force.get("family") or rng.choice(FAMILIES)
        X = gen_matrix(rng, n, d, fam)
        rank = int(np.linalg.matrix_rank(np.array(X)))
        ncand = n if axis == 0 else d
        tmax = min(rank - 1, ncand, 4 if quick else 6)
        if tmax < 1:
            continue
        k = force.get("k") or rng.choice([1, 1, 2, 3])
        if kind == "cur" and k >= min(n, d):          # svds needs k < min(shape)
            k = min(n, d) - 1
        if kind == "pcovcur" and k > ncand:
            k = ncand
        total = rng.randint(1, tmax)
        if rng.random() < 0.6:
            total = tmax
        stages = [total]
        if total >= 2 and rng.random() < 0.3:
            stages = [rng.randint(1, total - 1), total]
        case = dict(kind=kind, axis=axis, X=X, y=None, family=fam, k=k,
                    re=force.get("re", rng.choice([1, 1, 0, 2, 3])), stages=stages, mixing=None)
        if kind == "pcovcur":
            case["y"] = gen_y(rng, n, rng.choice([1, 1, 2]), fam)
            case["mixing"] = force.get("mixing", rng.choice(MIXINGS))
        return case
    raise RuntimeError("no admissible case generated")


# ----------------------------------------------------------------------------- implementation
def _cast(v, how):
    """parameter presentation (see harness/curhist.py cast_param): same value, other scalar type."""
    if how in (None, "int", "float"):
        return v
    if how == "pyint":
        return int(v)
    return getattr(np, how)(v)


def make(case):
    pt = case.get("ptypes") or {}
    kw = dict(recompute_every=_cast(case["re"], pt.get("re")), k=_cast(case["k"], pt.get("k")),
              n_to_select=_cast(case["stages"][0], pt.get("nts")))
    if "tol" in pt:
        kw["tolerance"] = _cast(TOL, pt["tol"])
    if case["kind"] == "pcovcur":
        kw["mixing"] = _cast(case["mixing"], pt.get("mixing"))
    return S.make_selector(case["kind"], case["axis"], **kw)


class PiRecorder:
    """records every importance vector computed by the selector (harness-side wrapper around the
    instance's _compute_pi; falls back to nothing if the method does not exist)."""

    def __init__(self, sel):
        self.calls = []
        self.ok = hasattr(sel, "_compute_pi")
        if not self.ok:
            return
        orig = sel._compute_pi

        def compute_pi(*a, **kw):
            r = orig(*a, **kw)
            self.calls.append(np.array(r, dtype=float, copy=True))
            return r
        sel._compute_pi = compute_pi


def run_impl(case):
    """fit the chain; returns dict with sel, presented score vectors, refresh vectors, residuals."""
    X = np.array(case["X"], dtype=float)
    Y = None if case["y"] is None else np.array(case["y"], dtype=float)
    sel = make(case)
    rec = Recorder(sel)
    pir = PiRecorder(sel)
    out = dict(stages=[])
    with warnings.catch_warnings(record=True) as w:
        warnings.simplefilter("always")
        try:
            for si, kk in enumerate(case["stages"]):
                sel.n_to_select = _cast(kk, (case.get("ptypes") or {}).get("nts"))
                if Y is None:
                    sel.fit(X, warm_start=(si > 0))
                else:
                    sel.fit(X, Y, warm_start=(si > 0))
                out["stages"].append(dict(sel=[int(i) for i in sel.selected_idx_], nsel=int(sel.n_selected_),
                                          X_current=np.array(sel.X_current_, dtype=float).tolist()))
        except Exception as e:      # noqa
            out["error"] = "%s: %s" % (type(e).__name__, str(e)[:200])
            return out
        out["warnings"] = sorted({str(x.message)[:60] for x in w})
    out["sel"] = [int(i) for i in sel.selected_idx_]
    out["presented"] = [[float(x) for x in v] for v in rec.calls]
    out["refresh"] = [[float(x) for x in v] for v in pir.calls] if pir.ok else None
    out["X_current"] = np.array(sel.X_current_, dtype=float).tolist()
    yc = getattr(sel, "y_current_", None)
    out["y_current"] = None if yc is None else np.array(yc, dtype=float).reshape(len(X), -1).tolist()
    return out


def schedule(case, sel):
    """[(n_selected at the refresh, warm?)] in order, from the documented schedule."""
    re_ = case["re"]
    ev = [(0, False)]
    t = 0
    for si, kk in enumerate(case["stages"]):
        if si > 0:
            ev.append((t, True))
        while t < kk:
            t += 1
            if re_ != 0 and t % re_ == 0:
                ev.append((t, False))
    return ev


# ----------------------------------------------------------------------------- independent oracle
def proj_residual(X, cols):
    """(I - P) X with P the orthogonal projector on span X[:, cols]; computed from a dense SVD of
    the selected block (not by the implementation's sequential deflation)."""
    if not cols:
        return X.copy()
    U, s, _ = np.linalg.svd(X[:, cols], full_matrices=False)
    Q = U[:, s > 1e-10 * max(s.max(), 1e-300)]
    return X - Q @ (Q.T @ X)


def ref_pi(case, X, Y, chosen):
    """documented importance score for the items, given the selections made so far.
    Returns (pi, relgap) ; relgap = relative gap between eigenvalue k and k+1 of the matrix used."""
    axis, k = case["axis"], case["k"]
    re_ = case["re"]
    if axis == 1:
        Xc = proj_residual(X, chosen)
    else:
        Xc = proj_residual(X.T, chosen).T
    if case["kind"] == "cur":
        M = Xc @ Xc.T if axis == 0 else Xc.T @ Xc
    else:
        a = case["mixing"]
        if axis == 1:
            if chosen:
                Xs = X[:, chosen]
                yc = Y - Xs @ np.linalg.lstsq(Xs, Y, rcond=None)[0]
            else:
                yc = Y
            lam, U = np.linalg.eigh(Xc.T @ Xc)
            good = lam > 1e-10 * max(lam.max(), 1e-300)
            isq = (U[:, good] / np.sqrt(lam[good])) @ U[:, good].T
            CY = isq @ (Xc.T @ yc)
            M = a * (Xc.T @ Xc) + (1 - a) * (CY @ CY.T)
        else:
            if chosen:
                W = np.linalg.lstsq(X[chosen], Y[chosen], rcond=None)[0]
                yc = Y - X @ W
            else:
                yc = Y
            M = a * (Xc @ Xc.T) + (1 - a) * (yc @ yc.T)
    lam, V = np.linalg.eigh((M + M.T) / 2)
    lam, V = lam[::-1], V[:, ::-1]
    pi = (V[:, :k] ** 2).sum(axis=1)
    top = max(abs(lam[0]), 1e-300)
    gap = (lam[k - 1] - lam[k]) / top if k < len(lam) else 1.0
    return pi, gap


def oracle(case, res, gap_gate=1e-6, tie=1e-9):
    """Direct statement of C07 on the implementation's outputs.  Returns (message or None, info)."""
    info = dict(steps=0, tie_accepted=0, gap_skipped=0)
    if "error" in res:
        return "fit raised " + res["error"], info
    X = np.array(case["X"], dtype=float)
    Y = None if case["y"] is None else np.array(case["y"], dtype=float)
    sel = res["sel"]
    n_items = X.shape[case["axis"]]
    if len(set(sel)) != len(sel) or any(i < 0 or i >= n_items for i in sel) or len(sel) != case["stages"][-1]:
        return "selected_idx_ %s is not %d distinct valid indices" % (sel, case["stages"][-1]), info
    re_ = case["re"]
    # the refresh in force at each step
    t = 0
    last_refresh = 0
    for si, kk in enumerate(case["stages"]):
        if si > 0:
            last_refresh = t
        while t < kk:
            chosen = sel[:last_refresh] if re_ != 0 else []
            if re_ == 0 and si > 0:
                chosen = []          # residual never updated when recompute_every = 0
            pi, gap = ref_pi(case, X, Y, chosen)
            info["steps"] += 1
            if gap < gap_gate:
                info["gap_skipped"] += 1
            else:
                free = [j for j in range(n_items) if j not in sel[:t]]
                best = max(pi[j] for j in free)
                got = pi[sel[t]]
                if got < best - 1e-6 * max(best, 1e-300) - 1e-12:
                    # ARPACK ties: accept when the two scores agree
                    if abs(best - got) <= tie * max(best, 1e-300):
                        info["tie_accepted"] += 1
                    else:
                        return ("step %d: selected item %d has score %.9g under the most recent refresh "
                                "(after %d selections) but unselected item %d has %.9g"
                                % (t, sel[t], got, last_refresh if re_ else 0,
                                   max(free, key=lambda j: pi[j]), best)), info
            t += 1
            if re_ != 0 and t % re_ == 0:
                last_refresh = t
    # exposed residual
    if re_ != 0:
        Xc = np.array(res["X_current"])
        want = proj_residual(X, sel) if case["axis"] == 1 else proj_residual(X.T, sel).T
        sc = max(1.0, np.abs(X).max())
        if np.abs(Xc - want).max() > 1e-7 * sc:
            return "X_current_ is not the input with the selected items projected out (max dev %.3g)" % (
                np.abs(Xc - want).max()), info
        cross = Xc.T @ X[:, sel] if case["axis"] == 1 else Xc @ X[sel].T
        if np.abs(cross).max() > 1e-7 * sc * sc:
            return "X_current_ is not orthogonal to the selected items (max %.3g)" % np.abs(cross).max(), info
        if Y is not None and res["y_current"] is not None:
            yc = np.array(res["y_current"])
            if case["axis"] == 1:
                Xs = X[:, sel]
                wanty = Y - Xs @ np.linalg.lstsq(Xs, Y, rcond=None)[0]
            else:
                wanty = Y - X @ np.linalg.lstsq(X[sel], Y[sel], rcond=None)[0]
            if np.abs(yc - wanty).max() > 1e-7 * max(1.0, np.abs(Y).max()) * max(1.0, np.linalg.cond(X)):
                return "y_current_ is not the unexplained part of y (max dev %.3g)" % np.abs(yc - wanty).max(), info
    return None, info


# ----------------------------------------------------------------------------- model replica (hints)
def m_orth_step(x1, j, tol=TOL):
    col = x1[:, [j]]
    nrm = math.sqrt(float((col * col).sum()))
    if not nrm < tol:
        col = col * (1.0 / nrm)
    return x1 - col @ (col.T @ x1)


def m_resid(X, sel, axis, re_):
    """numpy replica of Model/CURLoop.v resid_f (only used to compute oracle hints)."""
    if re_ == 0:
        return X.copy()
    x1 = X.copy() if axis == 1 else X.T.copy()
    for j in sel:
        x1 = m_orth_step(x1, j)
    return x1 if axis == 1 else x1.T


def stage_of_step(case):
    """n_to_select of the fit during which the s-th selection (1-based) is made."""
    out, t = [], 0
    for kk in case["stages"]:
        while t < kk:
            t += 1
            out.append(kk)
    return out


def y_hints(case, sel):
    """per selection: feature -> (K, pinv(Xs^T Xs)); sample -> (W, Z)."""
    X = np.array(case["X"], dtype=float)
    Y = np.array(case["y"], dtype=float)
    Ks = stage_of_step(case)
    hints = []
    for t in range(1, len(sel) + 1):
        if case["axis"] == 1:
            K = Ks[t - 1]
            Xs = np.zeros((X.shape[0], K))
            Xs[:, :t] = X[:, sel[:t]]
            hints.append((K, np.linalg.pinv(Xs.T @ Xs, rcond=TOL)))
        else:
            Xr, Yr = X[sel[:t]], Y[sel[:t]]
            W = np.linalg.lstsq(Xr, Yr, rcond=TOL)[0]
            Z = np.linalg.lstsq(Xr.T, W, rcond=None)[0]
            hints.append((W, Z))
    return hints


def m_y(case, sel, t, hints):
    Y = np.array(case["y"], dtype=float)
    X = np.array(case["X"], dtype=float)
    if case["re"] == 0 or t == 0:
        return Y
    if case["axis"] == 0:
        return Y - X @ hints[t - 1][0]
    y = Y
    for s in range(1, t + 1):
        K, V = hints[s - 1]
        Xs = np.zeros((X.shape[0], K))
        Xs[:, :s] = X[:, sel[:s]]
        y = y - ((Xs @ V) @ Xs.T) @ y
    return y


def eig_desc(M):
    lam, V = np.linalg.eigh(M)
    return lam[::-1].copy(), V[:, ::-1].copy()


def refresh_hints(case, sel, t, hints, rcond=1e-12):
    """complete eigendecomposition of the matrix the model forms at a refresh with t selections."""
    X = np.array(case["X"], dtype=float)
    Xt = m_resid(X, sel[:t], case["axis"], case["re"])
    UC = vC = None
    if case["kind"] == "cur":
        M = Xt @ Xt.T if case["axis"] == 0 else Xt.T @ Xt
    else:
        yt = m_y(case, sel, t, hints)
        a = case["mixing"]
        if case["axis"] == 0:
            M = ((1 - a) * yt) @ yt.T + (a * Xt) @ Xt.T
        else:
            vC, UC = eig_desc(Xt.T @ Xt)
            d = np.where(vC > rcond, 1.0 / np.sqrt(np.where(vC > rcond, vC, 1.0)), 0.0)
            isq = (UC * d) @ UC.T
            CY = isq @ (Xt.T @ yt)
            M = (1 - a) * (CY @ CY.T) + a * (Xt.T @ Xt)
    lam, V = eig_desc(M)
    return dict(V=V, lam=lam, UC=UC, vC=vC, M=M)


KEY_F28 = "warm start re-orthogonalises by rounding noise: absolute tolerance guard on large-valued X"


def abs_guard_fires(case, res):
    """True when, at a warm start, the residual of an already selected item exceeds the ABSOLUTE
    tolerance although it is negligible relative to the item (finding F28: the unrepaired guard of
    _continue_greedy_search then re-orthogonalises by normalised rounding noise).  Evaluated on the
    implementation's own X_current_ as it was before the warm start."""
    if case["re"] == 0 or len(case["stages"]) < 2 or len(res.get("stages", [])) < 1:
        return False
    X = np.array(case["X"], dtype=float)
    for st in res["stages"][:-1] if len(res["stages"]) == len(case["stages"]) else res["stages"]:
        Xt = np.array(st["X_current"], dtype=float)
        for c in st["sel"]:
            a = np.linalg.norm(np.take(Xt, [c], axis=case["axis"]))
            b = np.linalg.norm(np.take(X, [c], axis=case["axis"]))
            if a > TOL and a <= 1e-9 * b:
                return True
    return False


# ----------------------------------------------------------------------------- Coq text
class Interner:
    def __init__(self):
        self.defs, self.names = [], {}

    def mat(self, A):
        if A is None:
            return "[]"
        A = np.atleast_2d(np.asarray(A, dtype=float))
        if A.size == 0:
            return "[]"
        key = (A.shape, A.tobytes())
        if key not in self.names:
            name = "m%d" % len(self.names)
            self.defs.append("Definition %s : fmat := %s.\n" % (name, C.fmat(A.tolist())))
            self.names[key] = name
        return self.names[key]

    def col(self, v):
        return "[]" if v is None else self.mat(np.asarray(v, dtype=float).reshape(-1, 1))


def code_vec(v):
    return [bits(x) for x in v]


def case_coq(case, res, I):
    """(sched_ok term, ccase term) for a fitted chain; None if the refresh vectors are unavailable."""
    X = np.array(case["X"], dtype=float)
    n, m = X.shape
    axis = case["axis"]
    N = n if axis == 0 else m
    sel = res["sel"]
    ev = schedule(case, sel)
    refresh = res["refresh"]
    sched = "sched_ok %d %d %s%%Z %s %s %s%%Z" % (
        case["re"], N, C.zmat([code_vec(v) for v in refresh]), C.natlist(case["stages"]),
        C.natlist(sel), C.zmat([code_vec(v) for v in res["presented"]]))
    pcov = case["kind"] == "pcovcur"
    p = len(case["y"][0]) if pcov else 0
    hints = y_hints(case, sel) if (pcov and case["re"] != 0) else []
    rtxt = []
    if len(ev) == len(refresh):
        for (t, warm), piobs in zip(ev, refresh):
            h = refresh_hints(case, sel, t, hints)
            rtxt.append("(mk_refresh %d %s %s %s %s %s %s)" % (
                t, "true" if warm else "false", I.mat(h["V"]), I.col(h["lam"]), I.mat(h["UC"]), I.col(h["vC"]), I.col(piobs)))
    if pcov and axis == 1:
        yf = "[" + "; ".join("(%d%%nat, %s)" % (K, I.mat(V)) for K, V in hints) + "]"
        ys = "[]"
    elif pcov:
        yf = "[]"
        ys = "[" + "; ".join("(%s, %s)" % (I.mat(W), I.mat(Z)) for W, Z in hints) + "]"
    else:
        yf = ys = "[]"
    cc = "(mk_ccase %s %s %d %d %d %d %d %s %s %s %s %s %s [%s] %s %s)" % (
        "true" if axis == 0 else "false", "true" if pcov else "false", n, m, p, case["k"], case["re"],
        C.fl(case["mixing"] if pcov else 1.0), I.mat(X), I.mat(case["y"]) if pcov else "[]",
        C.natlist(sel), yf, ys, "; ".join(rtxt), I.mat(res["X_current"]),
        I.mat(res["y_current"]) if pcov else "[]")
    return sched, cc, len(ev) == len(refresh)


PARAMS = dict(tol=TOL, rcond=1e-12, rtol=1e-9, atol=1e-9, eps=1e-9, gap=1e-6, pirtol=1e-6, piatol=1e-7,
              cond=1e-10)


def shard_text(scheds, ccs, I, P=PARAMS):
    return (C.SHARD_HEAD + "From Coq Require Import List PrimFloat ZArith.\nImport ListNotations.\n"
            "From Verif Require Import ListX MExp CURSched CURLoop.\n"
            + "".join(I.defs)
            + "Definition prm := mk_cparams %s %s %s %s %s %s %s %s %s.\n" % tuple(
                C.fl(P[k]) for k in ("tol", "rcond", "rtol", "atol", "eps", "gap", "pirtol", "piatol", "cond"))
            + "Definition scheds : list bool := [\n %s].\n" % ";\n ".join(scheds)
            + "Definition cases : list ccase := [\n %s].\n" % ";\n ".join(ccs)
            + "Eval vm_compute in (failing scheds).\n"
            + "Eval vm_compute in (map (cc_report prm) cases).\n")


# ---- parsing of printed Coq values (lists, tuples, booleans, floats) --------------------------
def _coq_value(txt):
    import ast
    import re
    t = txt.replace(";", ",")
    t = re.sub(r"\btrue\b", "True", t)
    t = re.sub(r"\bfalse\b", "False", t)
    t = re.sub(r"\bneg_infinity\b", "'-inf'", t)
    t = re.sub(r"\binfinity\b", "'inf'", t)
    t = re.sub(r"\bnan\b", "'nan'", t)
    t = re.sub(r"%float|%nat|%Z", "", t)
    v = ast.literal_eval(t)

    def conv(x):
        if isinstance(x, str):
            return float(x)
        if isinstance(x, (list, tuple)):
            return [conv(y) for y in x]
        return x
    return conv(v)


def parse_evals(out):
    import re
    flat = out.replace("\n", " ")
    vals = []
    for part in re.split(r"(?:^|\s)=\s", flat)[1:]:
        i = part.rfind(" : ")
        body = part[:i] if i >= 0 else part
        try:
            vals.append(_coq_value(body.strip()))
        except Exception:            # noqa
            vals.append(None)
    return vals
