"""C12 — histories on ONE estimator object (KernelNormalizer / SparseKernelCenterer):
fit, change parameters / data / weights, re-fit, rejected calls, then transform.

The model is the object state machine of coq/Model/KernelObj.v (kn_step / sk_step with the
binary64 numerics of Model/KernelNorm.v and Model/KernelCut.v); every step of the history is
compared with what the implementation returned / stored.  The direct oracle (search only)
replays the LAST successful fit on a fresh estimator: the result of a re-used estimator must
not depend on what it was used for before."""
import numpy as np

from harness import common as C

WK2 = ["none", "none", "uniform", "random", "random", "zeros", "integer", "nearuniform"]


def _P():
    from harness.props import c12
    return c12


# ------------------------------------------------------------------------------ generation
def gen_hist(rng, quick, sparse):
    P = _P()
    nmax, pmax, kmax = (6, 3, 4) if quick else (10, 5, 6)
    p = rng.randint(1, pmax)
    offset = rng.choice([0.0, 1.0, 5.0])
    mag = P.gen_mag(rng)
    steps = []
    init = dict(c=rng.random() < 0.7, t=rng.random() < 0.7)
    if sparse:
        init["rc"] = rng.choice(P.RCONDS)
    fitted = None                      # dims of the last successful fit: (n, m)
    nfit = 0
    L = rng.randint(3, 7)
    last_wkind = None
    while len(steps) < L or nfit < 2:
        r = rng.random()
        if fitted is None and r < 0.12:
            k = rng.randint(1, kmax)
            steps.append(dict(op="transform", Psi=P.gen_feats(rng, k, p, offset, mag), unfitted=True,
                              cols=rng.randint(1, nmax)))
        elif r < 0.45 or (len(steps) >= L and nfit < 2):
            n = rng.randint(2, nmax)
            # weight kinds alternate on purpose: weighted -> None -> weighted ... is the history
            # in which something left over from the previous fit would show
            wkind = rng.choice(WK2)
            if last_wkind is not None and last_wkind != "none" and rng.random() < 0.6:
                wkind = "none"
            st = dict(op="fit_transform" if rng.random() < 0.35 else "fit",
                      Phi=P.gen_feats(rng, n, p, offset, mag), w=P.gen_w(rng, n, wkind), wkind=wkind, bad=None)
            m = None
            if sparse:
                m = rng.randint(1, nmax)
                if rng.random() < 0.5 and m <= n:
                    st["A"] = [list(st["Phi"][i]) for i in rng.sample(range(n), m)]
                else:
                    st["A"] = P.gen_feats(rng, m, p, offset, mag)
            # the weights may be handed over as a VIEW of a column of the caller's kernel array
            # (resolved when the arrays are built: needs a column with positive entries)
            st["wview"] = (not sparse) and st["w"] is not None and rng.random() < 0.3
            st["inplace"] = (not sparse) and st["op"] == "fit_transform" and rng.random() < 0.5   # copy=False
            steps.append(st)
            fitted, last_wkind = (n, m), wkind
            nfit += 1
        elif r < 0.55:
            # a rejected fit: the object must stay as it was
            n = fitted[0] if fitted else rng.randint(2, nmax)
            st = dict(op="fit_transform" if rng.random() < 0.3 else "fit",
                      Phi=P.gen_feats(rng, n, p, offset, mag), wkind="random", bad="w_len",
                      w=[rng.uniform(0.1, 2.0) for _ in range(n + rng.choice([1, 2, -1]))])
            if sparse:
                m = fitted[1] if fitted else rng.randint(1, nmax)
                st["A"] = P.gen_feats(rng, m, p, offset, mag)
                st["bad"] = rng.choice(["w_len", "kmm_shape", "kmm_nonsquare"])
                if st["bad"] != "w_len":
                    st["w"] = None
                    st["wkind"] = "none"
            steps.append(st)
        elif r < 0.70:
            st = dict(op="set", c=rng.random() < 0.6, t=rng.random() < 0.6)
            if sparse:
                st["rc"] = rng.choice(P.RCONDS)
            steps.append(st)
        elif fitted is not None:
            k = rng.randint(1, kmax)
            st = dict(op="transform", Psi=P.gen_feats(rng, k, p, offset, mag))
            if rng.random() < 0.12:
                st["badcols"] = rng.choice([-1, 1])
            st["inplace"] = (not sparse) and rng.random() < 0.3      # transform(K, copy=False)
            steps.append(st)
    return dict(kind="skhist" if sparse else "knhist", init=init, steps=steps, mag=mag,
                flagpres=rng.choice(["bool", "bool", "np_bool", "int"]))


# ------------------------------------------------------------------------------ implementation
def _arr(x):
    return np.array(x, dtype=float)


def _w(st):
    return None if st.get("w") is None else _arr(st["w"])


def _wr(st, r):
    """the weights the call was made with (a view of K resolves to its values at call time)"""
    x = r["w"] if "w" in r else st.get("w")
    return None if x is None else _arr(x)


def step_arrays(case):
    """the arrays each step is called with (computed once, used for the implementation, the
    model literals and the oracle)"""
    sparse = case["kind"] == "skhist"
    cur = None                   # features the kernels of transform refer to (last successful fit)
    out = []
    for st in case["steps"]:
        a = {}
        if st["op"] in ("fit", "fit_transform"):
            Phi = _arr(st["Phi"])
            if sparse:
                A = _arr(st["A"])
                a["Knm"], a["Kmm"] = Phi @ A.T, A @ A.T
                if st["bad"] == "kmm_shape":
                    A2 = np.vstack([A, A[:1] + 1.0])
                    a["Kmm"] = A2 @ A2.T
                elif st["bad"] == "kmm_nonsquare":
                    a["Kmm"] = (A @ A.T)[:, : max(1, A.shape[0] - 1)] if A.shape[0] > 1 else np.hstack([A @ A.T] * 2)
                if st["bad"] is None:
                    cur = A
            else:
                a["K"] = Phi @ Phi.T
                if st["bad"] is None:
                    cur = Phi
            a["w"] = _w(st)
            if st.get("wview") and st["bad"] is None and a["w"] is not None:
                pos = [j for j in range(a["K"].shape[1]) if np.all(a["K"][:, j] > 0)]
                if pos:
                    a["w"] = a["K"][:, pos[0]]          # a view into the caller's kernel array
        elif st["op"] == "transform":
            Psi = _arr(st["Psi"])
            if cur is None:
                a["Kt"] = Psi @ Psi[np.arange(st.get("cols", 1)) % len(Psi)].T
            else:
                B = cur
                if st.get("badcols") == -1:
                    B = cur[:-1] if len(cur) > 1 else np.vstack([cur, cur])
                elif st.get("badcols") == 1:
                    B = np.vstack([cur, cur[:1]])
                a["Kt"] = Psi @ B.T
        out.append(a)
    return out


def make_obj(case, flags=None):
    from skmatter.preprocessing import KernelNormalizer, SparseKernelCenterer
    P = _P()
    f = flags or case["init"]
    fp = case.get("flagpres", "bool")
    if case["kind"] == "skhist":
        return SparseKernelCenterer(with_center=P.pflag(f["c"], fp), with_trace=P.pflag(f["t"], fp),
                                    **P.rc_kw(f.get("rc")))
    return KernelNormalizer(with_center=P.pflag(f["c"], fp), with_trace=P.pflag(f["t"], fp))


def set_flags(obj, st, sparse):
    P = _P()
    if sparse:
        # SparseKernelCenterer is not a BaseEstimator (no set_params): plain attribute assignment,
        # which is all set_params does
        obj.with_center, obj.with_trace, obj.rcond = st["c"], st["t"], P.eff_rcond(st.get("rc"))
    else:
        obj.set_params(with_center=st["c"], with_trace=st["t"])


def attrs(obj, sparse):
    d = dict(rows=np.asarray(obj.K_fit_rows_, dtype=float).tolist(), scale=float(obj.scale_))
    if not sparse:
        d["all"] = float(obj.K_fit_all_)
    return d


def run_impl(case):
    sparse = case["kind"] == "skhist"
    P = _P()
    arrs = step_arrays(case)
    recs = []
    try:
        obj = make_obj(case)
    except Exception as e:  # noqa
        return dict(error=type(e).__name__, error_msg=str(e))
    with np.errstate(all="ignore"):
        for st, a in zip(case["steps"], arrs):
            r = {k: (None if v is None else v.tolist()) for k, v in a.items()}
            if sparse and "Kmm" in a and a["Kmm"].shape[0] == a["Kmm"].shape[1]:
                ev, U = P.sym_eigh(a["Kmm"])
                r["U"], r["ev"] = U.tolist(), ev.tolist()
            w = a.get("w")
            try:
                # the caller's own arrays go in (no defensive copies) ...
                if st["op"] == "set":
                    set_flags(obj, st, sparse)
                elif st["op"] == "fit":
                    if sparse:
                        obj.fit(a["Knm"], a["Kmm"], sample_weight=w)
                    else:
                        obj.fit(a["K"], sample_weight=w)
                    r.update(attrs(obj, sparse))
                elif st["op"] == "fit_transform":
                    if sparse:
                        X = obj.fit_transform(a["Knm"], a["Kmm"], sample_weight=w)
                    elif st.get("inplace"):
                        X = obj.fit_transform(a["K"], sample_weight=w, copy=False)
                        r["left"] = a["K"].tolist()          # what the call left in the caller's array
                    else:
                        X = obj.fit_transform(a["K"], sample_weight=w)
                    X = np.array(X, dtype=float)
                    r.update(attrs(obj, sparse))
                    r["X"] = X.tolist()
                elif st.get("inplace"):
                    r["X"] = np.array(obj.transform(a["Kt"], copy=False), dtype=float).tolist()
                    r["left"] = a["Kt"].tolist()
                else:
                    r["X"] = np.array(obj.transform(a["Kt"]), dtype=float).tolist()
            except Exception as e:  # noqa
                r["raised"] = type(e).__name__
                r["raised_msg"] = str(e)[:200]
            # calls without copy=False must leave the caller's arrays as they were — also when they raise
            if not st.get("inplace"):
                for k, v in a.items():
                    if v is not None and not P._same(v, r[k]):
                        r["mutated"] = k
            # ... and are overwritten in place once the call has returned
            P.scribble(*[v for v in a.values() if v is not None and v.base is None])
            P.scribble(*[v for v in a.values() if v is not None and v.base is not None])
            recs.append(r)
    return dict(steps=recs)


# ------------------------------------------------------------------------------ flags / gate
def flag_trace(case):
    """per step: (flags in force when the step runs, flags of the last successful fit or None)"""
    cur = dict(case["init"])
    fitf = None
    out = []
    for st in case["steps"]:
        if st["op"] == "set":
            cur = {k: st[k] for k in cur}
        out.append((dict(cur), fitf))
        if st["op"] in ("fit", "fit_transform") and st["bad"] is None:
            fitf = dict(cur)
            out[-1] = (dict(cur), fitf)
    return out


def gate(case, rec):
    """a history is skipped (counted) when one of its fits is ill-conditioned by the rules of the
    single-call families (reference scale vanishes, singular value of Kmm near the cut-off)"""
    P = _P()
    if "error" in rec:
        return None
    sparse = case["kind"] == "skhist"
    for st, r, (cur, _) in zip(case["steps"], rec["steps"], flag_trace(case)):
        if st["op"] not in ("fit", "fit_transform") or st["bad"] is not None:
            continue
        pc = dict(kind="sparse" if sparse else "kn", Phi=st["Phi"], w=r.get("w", st["w"]), with_center=cur["c"],
                  with_trace=cur["t"], rcond=cur.get("rc"))
        pr = dict(r)
        if sparse:
            pr["P"] = np.linalg.pinv(_arr(r["Kmm"]), P.eff_rcond(cur.get("rc"))).tolist()
        g = P.gate(pc, dict(pr, scale=1.0))
        if g:
            return g
    return None


# ------------------------------------------------------------------------------ oracle (search only)
def oracle(case, rec):
    """The output of every transform / fit_transform of the history equals that of a FRESH
    estimator which only saw the last successful fit (constructed with the flags in force at
    that fit, then set to the flags in force now); for KernelNormalizer with unchanged flags it
    is also the Gram matrix of the centred features over the common scale.  None or a message."""
    P = _P()
    if "error" in rec:
        return "raised %s: %s" % (rec["error"], rec.get("error_msg"))
    sparse = case["kind"] == "skhist"
    last = None
    for i, (st, r, (cur, fitf)) in enumerate(zip(case["steps"], rec["steps"], flag_trace(case))):
        ok_fit = st["op"] in ("fit", "fit_transform") and st["bad"] is None
        if ok_fit:
            last = (st, r)
            if "raised" in r:
                return "step %d: %s raised %s on valid input" % (i, st["op"], r["raised"])
        if r.get("mutated"):
            return "step %d: %s changed the caller's array %s%s" % (
                i, st["op"], r["mutated"], " (and raised %s)" % r["raised"] if "raised" in r else "")
        if st["op"] in ("fit", "fit_transform") and st["bad"] is not None and "raised" not in r:
            return "step %d: %s accepted invalid input (%s)" % (i, st["op"], st["bad"])
        if "X" not in r or last is None:
            continue
        want = np.shape(r["Kt"]) if st["op"] == "transform" else np.shape(last[1]["Knm"] if sparse else last[1]["K"])
        if np.shape(np.asarray(r["X"], dtype=float)) != tuple(want):
            return "step %d (%s): the result has shape %s, expected %s" % (
                i, st["op"], np.shape(np.asarray(r["X"], dtype=float)), tuple(want))
        fst, fr = last
        try:
            with np.errstate(all="ignore"):
                fresh = make_obj(case, fitf)
                if sparse:
                    fresh.fit(_arr(fr["Knm"]), _arr(fr["Kmm"]), sample_weight=_wr(fst, fr))
                else:
                    fresh.fit(_arr(fr["K"]), sample_weight=_wr(fst, fr))
                set_flags(fresh, cur, sparse)
                Kin = _arr(r["Kt"]) if st["op"] == "transform" else _arr(fr["Knm"] if sparse else fr["K"])
                Y = np.asarray(fresh.transform(Kin.copy()), dtype=float)
        except Exception as e:  # noqa
            return "step %d: a fresh estimator raises %s where the re-used one returned a result" % (i, type(e).__name__)
        X = _arr(r["X"])
        if X.shape != Y.shape:
            return "step %d: shape %s, fresh estimator %s" % (i, X.shape, Y.shape)
        ref = float(np.max(np.abs(Y))) if Y.size else 0.0
        if not np.all(np.isfinite(X)):
            return "step %d (%s): the result has non-finite entries (scale_ = %r)" % (i, st["op"], fr.get("scale"))
        if sparse:
            # direct statement: (K - weighted column means of the last training block) / scale, the scale
            # from the centred Nystrom trace with pinv(Kmm, rcond) of the last fit
            rcf = P.eff_rcond(fitf.get("rc"))
            pc = dict(kind="sparse", Phi=fst["Phi"], w=fr.get("w", fst["w"]), with_center=fitf["c"], with_trace=fitf["t"])
            Pm = np.linalg.pinv(_arr(fr["Kmm"]), rcf)
            sr = P.ref_scale(pc, dict(Knm=fr["Knm"], P=Pm.tolist()))
            Knm = _arr(fr["Knm"])
            n = len(Knm)
            wv = np.ones(n) if fr.get("w", fst["w"]) is None else _arr(fr.get("w", fst["w"]))
            rows = (wv / wv.sum()) @ Knm if fitf["c"] else np.zeros(Knm.shape[1])
            kmx = max(float(np.max(np.abs(Knm))), float(np.max(np.abs(Kin))))
            cond = kmx * kmx * float(np.max(np.abs(Pm))) / (sr * sr) if fitf["t"] else 0.0
            E = (Kin - rows) / sr
            if np.any(np.abs(X - E) > 1e-7 * (kmx / sr) * (1 + cond) + 1e-7 * np.abs(E)):
                return ("step %d (%s): the result is not (K - weighted column means of the training block) / scale "
                        "with scale = sqrt(trace of the centred Nystrom kernel / n) = %r (scale_ = %r)"
                        % (i, st["op"], sr, fr.get("scale")))
        if np.any(np.abs(X - Y) > 1e-9 * ref + 1e-9 * np.abs(Y)):
            return ("step %d (%s): the result of the re-used estimator differs from that of a fresh estimator "
                    "given the same (last) fit by %.3g (relative to max|result|): it depends on the history"
                    % (i, st["op"], float(np.max(np.abs(X - Y))) / (ref or 1.0)))
        if ok_fit:
            for nm in ("rows", "scale") + (() if sparse else ("all",)):
                a, b = _arr(r[nm]), _arr(getattr(fresh, {"rows": "K_fit_rows_", "scale": "scale_", "all": "K_fit_all_"}[nm]))
                sc = float(np.max(np.abs(b))) if b.size else 0.0
                if np.any(np.abs(a - b) > 1e-9 * sc + 1e-300):
                    return "step %d: attribute %s after re-fit differs from that of a fresh estimator" % (i, nm)
        if not sparse and fitf == cur:
            # feature-space statement for this output, from the data of the last fit only
            pc = dict(kind="kn", kernel="linear", Phi=fst["Phi"], Psi=st.get("Psi", fst["Phi"]), w=fr.get("w", fst["w"]),
                      with_center=cur["c"], with_trace=cur["t"])
            K = _arr(fr["K"])
            pr = dict(K=fr["K"], Kt=Kin.tolist(), scale=fr["scale"], TKt=r["X"])
            with np.errstate(all="ignore"):
                tk = np.asarray(fresh.transform(K.copy()), dtype=float).tolist()
            pr["TK"] = pr["FT"] = tk
            if not P.gate(pc, pr):
                msg = P.oracle_body(pc, pr)
                if msg:
                    return "step %d: %s" % (i, msg)
    return None


# ------------------------------------------------------------------------------ Coq side
def _b(x):
    return "true" if x else "false"


def _wopt(st, r=None):
    w = r["w"] if r is not None and "w" in r else st.get("w")
    return "wNone" if w is None else "(Some %s)" % C.fmat([[x] for x in w])


def _imp(st, r, sparse):
    if "raised" in r:
        return "IRaise"
    if st["op"] == "set":
        return "IDone"
    if st["op"] == "transform":
        if "left" in r:
            return "(IOutL %s %s)" % (C.fmat(r["X"]), C.fmat(r["left"]))
        return "(IOut %s)" % C.fmat(r["X"])
    a = "%s %s %s" % (C.fmat([r["rows"]]), "[]" if sparse else C.fmat([[r["all"]]]), C.fmat([[r["scale"]]]))
    if st["op"] == "fit":
        return "(IFit %s)" % a
    if "left" in r:
        return "(IFitOutL %s %s %s)" % (a, C.fmat(r["X"]), C.fmat(r["left"]))
    return "(IFitOut %s %s)" % (a, C.fmat(r["X"]))


def case_coq(case, rec, tol, tolp, eps, diag=False):
    P = _P()
    sparse = case["kind"] == "skhist"
    items = []
    for st, r in zip(case["steps"], rec["steps"]):
        if st["op"] == "set":
            op = ("fSSet %s %s %s" % (_b(st["c"]), _b(st["t"]), C.fl(P.eff_rcond(st.get("rc")))) if sparse
                  else "fOSet %s %s" % (_b(st["c"]), _b(st["t"])))
        elif st["op"] == "transform":
            op = "%s %s" % ("fSTransform" if sparse else "fOTransform", C.fmat(r["Kt"]))
        else:
            ft = st["op"] == "fit_transform"
            if sparse:
                hint = "(%s, %s)" % (C.fmat(r["U"]), C.fmat([r["ev"]])) if "U" in r else "([], [])"
                op = "%s %s %s %s %s" % ("fSFitTransform" if ft else "fSFit", C.fmat(r["Knm"]), C.fmat(r["Kmm"]),
                                         hint, _wopt(st, r))
            else:
                op = "%s %s %s" % ("fOFitTransform" if ft else "fOFit", C.fmat(r["K"]), _wopt(st, r))
        items.append("(%s, %s)" % (op, _imp(st, r, sparse)))
    ops = "[" + ";\n   ".join(items) + "]"
    i = case["init"]
    if sparse:
        if diag:
            return "fsk_hist %s %s (sk_new fmat float %s %s %s, 0, 0) %s" % (
                C.fl(tolp), C.fl(eps), _b(i["c"]), _b(i["t"]), C.fl(P.eff_rcond(i.get("rc"))), ops)
        return "fsk_hist_ok %s %s %s %s %s %s" % (C.fl(tolp), C.fl(eps), _b(i["c"]), _b(i["t"]),
                                                  C.fl(P.eff_rcond(i.get("rc"))), ops)
    if diag:
        return "fkn_hist %s (kn_new fmat %s %s, 0) %s" % (C.fl(tol), _b(i["c"]), _b(i["t"]), ops)
    return "fkn_hist_ok %s %s %s %s" % (C.fl(tol), _b(i["c"]), _b(i["t"]), ops)


def describe(case):
    return " -> ".join(
        st["op"] + ("(w=%s%s%s)" % (st.get("wkind"), ", copy=False" if st.get("inplace") else "",
                                    ", rejected:" + st["bad"] if st.get("bad") else "")
                    if st["op"] in ("fit", "fit_transform") else
                    "(%s)" % ",".join("%s=%s" % (k, st[k]) for k in ("c", "t", "rc") if k in st) if st["op"] == "set" else "")
        for st in case["steps"])
