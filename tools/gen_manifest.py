#!/usr/bin/env python3
"""Regenerates MANIFEST.json from tools/manifest_table.py (one row per property)."""
import json, sys
sys.path.insert(0, "/verif/tools")
from manifest_table import CHECKS, NOT_APPLICABLE, FIX_COMMITS
import os
props = [json.loads(l)["id"] for l in open("/verif/properties.jsonl")]
# a check built by its own module describes itself in harness/props/<id>.meta.json
for pid in props:
    mp = "/verif/harness/props/%s.meta.json" % pid.lower()
    if os.path.exists(mp) and pid not in CHECKS:
        meta = json.load(open(mp))
        if meta.get("claimed", True):
            CHECKS[pid] = meta
        else:
            NOT_APPLICABLE[pid] = meta["reason"]
checks = []
for pid in props:
    if pid not in CHECKS:
        continue
    c = CHECKS[pid]
    checks.append(dict(
        property_id=pid,
        quick_cmd="./check %s --tier quick" % pid,
        thorough_cmd="./check %s --tier thorough" % pid,
        evidence_file="/verif/evidence/%s.json" % pid,
        replay_cmd_template="./check %s --replay {path}" % pid,
        engine="coq-correspondence",
        level_claimed=dict(category="proof", text=c["text"], design_ref=c.get("design_ref", "DESIGN.md §4 " + pid)),
        level_note=c["note"],
        technique=c.get("technique", "machine-checked proof in Coq 8.16.1 over a hand-written executable model + per-run correspondence check against /repo"),
    ))
na = [dict(property_id=p, reason=NOT_APPLICABLE[p]) for p in props if p not in CHECKS]
m = dict(
    version=1,
    setup_cmd="cd /verif && ./setup.sh",
    hooks=dict(guard="SKMATTER_VERIF",
               enable="export SKMATTER_VERIF=1 (set by ./check; no source hook exists in /repo, every observation uses public attributes or harness-side wrappers)",
               baseline_off_cmd="python3 /verif/tools/baseline.py",
               source_commits=[], add_only=True),
    engines=[dict(name="coq-correspondence", path="/verif/check", serves_properties=[c["property_id"] for c in checks],
                  kind_free_text="Coq 8.16.1 theorems over an executable Gallina model (coq/Model, coq/Proofs, coq/Properties); the model is tied to /repo on every run by a correspondence check evaluated inside Coq (vm_compute) on cases the harness generates and runs through the implementation")],
    checks=checks,
    not_applicable=na,
    notes="fix: commits in /repo (genuine defects found by the checks; details in known_findings.json and DESIGN.md §8.4): " + "; ".join("%s (%s)" % (f["commit"], f["property"]) for f in json.load(open("/verif/known_findings.json"))["fixed"]),
)
json.dump(m, open("/verif/MANIFEST.json", "w"), indent=1)
print("checks:", [c["property_id"] for c in checks], "n/a:", [x["property_id"] for x in na])
