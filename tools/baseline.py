#!/usr/bin/env python3
"""Run the repository's pinned test suite (guard OFF) and compare with /root/.vp/BASELINE.json:
every test listed there as stable_pass must pass.  Exit 0 iff so."""
import json
import os
import subprocess
import sys
import xml.etree.ElementTree as ET

base = json.load(open("/root/.vp/BASELINE.json"))
xml = "/verif/.baseline.junit.xml"
env = dict(os.environ)
env.pop("SKMATTER_VERIF", None)
cmd = base["cmd"].replace("<file>", xml)
if len(sys.argv) > 1:
    cmd += " " + " ".join(sys.argv[1:])
subprocess.run(cmd, shell=True, env=env, stdout=subprocess.DEVNULL, stderr=subprocess.DEVNULL)
passed = set()
for tc in ET.parse(xml).getroot().iter("testcase"):
    if not any(ch.tag in ("failure", "error", "skipped") for ch in tc):
        passed.add("%s::%s" % (tc.get("classname"), tc.get("name")))
missing = [t for t in base["stable_pass"] if t not in passed]
print("stable_pass=%d passed_now=%d missing=%d" % (len(base["stable_pass"]), len(passed), len(missing)))
for t in missing[:40]:
    print("  NOT PASSING:", t)
os.remove(xml)
sys.exit(1 if missing else 0)
