#!/bin/sh
# tools/coqmake.sh <target.vo> ...   — build targets (and deps) under the shared build lock
cd /verif && exec env PYTHONPATH=/verif python3 -c "
import sys
from harness import common as C
ok,out,cmd=C.coq_make(sys.argv[1:], timeout=int(__import__('os').environ.get('COQMAKE_TIMEOUT','420')))
print(out[-6000:]); sys.exit(0 if ok else 1)" "$@"
