#!/bin/bash
# tools/seed_sweep.sh "<props>" "<seeds>" [jobs] [tier]: run checks on /repo for many seeds without touching evidence/
props=$1; seeds=$2; jobs=${3:-3}; tier=${4:-quick}
cd /verif; mkdir -p replays/tmp_sweep
for p in $props; do for s in $seeds; do echo "$p $s"; done; done | xargs -P $jobs -L1 bash -c '
p=$0; s=$1; d=/verif/replays/tmp_sweep/${p}_$s; mkdir -p $d/evidence $d/replays
VERIF_SEED=$s VERIF_EVID=$d/evidence VERIF_REPLAYS=$d/replays ./check $p --tier '$tier' > $d/log 2>&1; rc=$?
echo "$p seed=$s exit=$rc viol=$(grep -c ^VIOLATION $d/log) $(grep -m1 "^# " $d/log | cut -c1-160)"'
