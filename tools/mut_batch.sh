#!/bin/bash
# tools/mut_batch.sh <tsv> [jobs]: id|prop|rawdir|N|needs|summary|checks  -> keep_mutation.py for each, in parallel
tsv=$1; jobs=${2:-3}
cd /verif; export OMP_NUM_THREADS=1 OPENBLAS_NUM_THREADS=1 MKL_NUM_THREADS=1
grep -v '^#' $tsv | tr '\n' '\0' | xargs -0 -P $jobs -I{} bash -c '
IFS="|" read -r id prop raw n needs summary checks <<< "{}"
python3 tools/keep_mutation.py "$id" "$prop" /verif/seeded_raw/$raw/mutation$n.diff /verif/seeded_raw/$raw/demo$n.py "$needs" "$summary" $checks > replays/tmp_logs/keep_$id.log 2>&1
echo "$id rc=$? $(tail -1 replays/tmp_logs/keep_$id.log | cut -c1-200)"
'
