#!/usr/bin/env python3
"""Regenerates the 'As built' part of DESIGN.md (between the AS-BUILT markers) from
tools/asbuilt_head.md, the per-property design notes (manifest_table.py / *.meta.json),
known_findings.json and seeded/*/meta.json."""
import glob, json, os, re, sys
sys.path.insert(0, "/verif/tools")
from manifest_table import CHECKS, MY_NOTES
props = [json.loads(l) for l in open("/verif/properties.jsonl")]
out = [open("/verif/tools/asbuilt_head.md").read().rstrip(), ""]
out.append("### 8.3 Per property, as built\n")
for p in props:
    pid = p["id"]
    mp = "/verif/harness/props/%s.meta.json" % pid.lower()
    note = MY_NOTES.get(pid)
    if note is None and os.path.exists(mp):
        note = json.load(open(mp)).get("design_notes", "")
    pf = "/verif/coq/Properties/%s.v" % pid
    n_thm = len(re.findall(r"^\s*Theorem\s", open(pf).read(), flags=re.M)) if os.path.exists(pf) else 0
    out.append("**%s — %s** (%d theorems in `coq/Properties/%s.v`).\n%s\n" % (pid, p["title"], n_thm, pid, (note or "not built").strip()))
kf = json.load(open("/verif/known_findings.json"))
out.append("### 8.4 Defects found by the checks in the unchanged tree\n")
out.append("Repaired by one `fix:` commit each in /repo (the unedited 555-test baseline passes with all of them; `python3 tools/baseline.py`):\n")
out.append("| property | commit | what failed |\n|---|---|---|")
for f in kf["fixed"]:
    out.append("| %s | `%s` | %s |" % (f["property"], f["commit"], f["what"].replace("|", "\\|")))
out.append("\nRecorded as known findings (not repaired; the check prints `KNOWN-FINDING:` and exits 0, any other violation still fails):\n")
out.append("| property | key | what fails / why not repaired |\n|---|---|---|")
for f in kf["findings"]:
    out.append("| %s | `%s` | %s |" % (f["property"], f["key"], f["what"].replace("|", "\\|")))
out.append("\n### 8.5 Seeded changes: which checks catch which\n")
out.append("Each change was written by a fresh sub-agent that saw only the property text and a scratch worktree (nothing from /verif), "
           "confirmed by `tools/keep_mutation.py` in a scratch worktree of /repo HEAD (patch applies, demo passes on /repo and fails with the change, "
           "the whole repository test-suite still passes with it), and is kept as `seeded/<id>/{patch.diff,demo.py,meta.json}`. "
           "Entries `exit/violations`; `nfi` = VIOLATION lines ending in no-failing-input-found.\n")
_metas = [json.load(open(mf)) for mf in sorted(glob.glob("/verif/seeded/*/meta.json"))]
_own = sum(1 for m in _metas if m["detected_by"].get(m["property"], {}).get("exit") == 1 and m["detected_by"][m["property"]].get("violation_lines", 0) > 0)
_nfi_only = sum(1 for m in _metas if m["detected_by"].get(m["property"], {}).get("exit") == 1 and m["detected_by"][m["property"]].get("violation_lines", 0) == m["detected_by"][m["property"]].get("without_failing_input", -1))
out.append("**Summary.** %d confirmed seeded changes from six independent rounds (rounds 1-2: before this document's §8 was first written; rounds 3-6: `seeded_raw/r3_*` ... `r6_*`); "
           "%d of them are reported (exit 1 with at least one VIOLATION line) by the check of the property they were written against, as re-measured by `tools/redetect.py` "
           "after the last strengthening; for %d of those every VIOLATION line ends in no-failing-input-found (the change breaks the correspondence but no clause of the property on an input the search found). "
           "At first sight (before the follow-up work recorded in each property's notes) the own check missed 8/60 (rounds 1-2), 19/60 (round 3), 22/60 (round 4), 23/60 (round 5), 20/60 (round 6).\n" % (len(_metas), _own, _nfi_only))
out.append("| seeded change | property | needs to manifest | detected by (exit code / VIOLATION lines) |\n|---|---|---|---|")
for mf in sorted(glob.glob("/verif/seeded/*/meta.json")):
    m = json.load(open(mf))
    det = "; ".join("%s: %d/%d%s" % (c, v["exit"], v["violation_lines"], (" (%d nfi)" % v["without_failing_input"]) if v.get("without_failing_input") else "")
                    for c, v in m["detected_by"].items())
    out.append("| `%s` — %s | %s | %s | %s |" % (m["id"], m["summary"].replace("|", "\\|"), m["property"], m["needs_to_manifest"].replace("|", "\\|"), det))
tail_p = "/verif/tools/asbuilt_tail.md"
if os.path.exists(tail_p):
    out += ["", open(tail_p).read().rstrip()]
txt = "\n".join(out) + "\n"
d = open("/verif/DESIGN.md").read()
B, E = "<!-- AS-BUILT BEGIN -->", "<!-- AS-BUILT END -->"
if B in d:
    d = d[:d.index(B)] + B + "\n" + txt + E + d[d.index(E) + len(E):]
else:
    d = d.rstrip() + "\n\n" + B + "\n" + txt + E + "\n"
open("/verif/DESIGN.md", "w").write(d)
print("DESIGN.md as-built section: %d lines" % txt.count("\n"))
