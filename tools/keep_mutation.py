#!/usr/bin/env python3
"""tools/keep_mutation.py <seed-id> <property> <raw.diff> <demo.py> "<needs>" "<summary>" <check ids...>
Confirms a seeded change in a scratch worktree of /repo HEAD (patch applies, demo passes on /repo and
fails on the changed tree, the repository's tests that import the changed modules still pass),
runs the named checks against the changed tree and stores /verif/seeded/<seed-id>/{patch.diff,demo.py,meta.json}."""
import json, os, re, shutil, subprocess, sys
sid, prop, raw, demo, needs, summary = sys.argv[1:7]
checks = sys.argv[7:]
wt = "/tmp/keep_" + sid
for _v in ("OMP_NUM_THREADS", "OPENBLAS_NUM_THREADS", "MKL_NUM_THREADS"):
    os.environ.setdefault(_v, "1")
def sh(cmd, **kw):
    return subprocess.run(cmd, shell=True, capture_output=True, text=True, **kw)
sh("git -C /repo worktree remove --force %s" % wt)
assert sh("git -C /repo worktree add -q %s HEAD" % wt).returncode == 0
try:
    r = sh("git -C %s apply %s" % (wt, raw))
    if r.returncode != 0:
        r = sh("git -C %s apply --3way %s" % (wt, raw))
        assert r.returncode == 0, "patch does not apply: " + r.stderr
        sh("git -C %s reset -q" % wt)
    patch = sh("git -C %s diff -- src" % wt).stdout
    assert patch.strip(), "empty patch"
    ran = []
    clean = sh("PYTHONPATH=/repo/src /venv/bin/python %s" % demo)
    mut = sh("PYTHONPATH=%s/src /venv/bin/python %s" % (wt, demo))
    ran.append("PYTHONPATH=/repo/src /venv/bin/python demo.py -> exit %d" % clean.returncode)
    ran.append("PYTHONPATH=<changed tree>/src /venv/bin/python demo.py -> exit %d" % mut.returncode)
    assert clean.returncode == 0 and mut.returncode != 0, "demo does not discriminate"
    # existing tests: whole suite on the changed tree (network tests excluded by the baseline list)
    t = sh("cd %s && PYTHONPATH=%s/src /venv/bin/python -m pytest -q -p no:cacheprovider -n 6 tests 2>&1 | tail -3" % (wt, wt))
    tail = t.stdout.strip().split("\n")[-1]
    ran.append("cd <changed tree> && pytest -q -n 6 tests -> " + tail)
    m = re.search(r"(\d+) failed", tail)
    nfail = int(m.group(1)) if m else 0
    failed = sh("cd %s && PYTHONPATH=%s/src /venv/bin/python -m pytest -q -p no:cacheprovider -n 6 tests 2>&1 | grep '^FAILED' " % (wt, wt)).stdout if nfail else ""
    NET = ("tests/test_sample_simple_cur.py::TestCUR::test_restart", "tests/test_sample_simple_cur.py::TestCUR::test_sample_transform",
           "tests/test_sample_simple_cur.py::TestCUR::test_non_it")      # need the network; fail on the clean tree too
    only_net = all(any(t in l for t in NET) for l in failed.strip().split("\n")) if failed.strip() else True
    assert only_net, "existing tests fail with the change:\n" + failed
    caught = {}
    for c in checks:
        o = sh("cd /verif && VERIF_REPO=%s ./check %s" % (wt, c))
        nv = len([l for l in o.stdout.split("\n") if l.startswith("VIOLATION")])
        first = next((l for l in o.stdout.split("\n") if l.startswith("# ")), "")
        nofound = sum("no-failing-input-found" in l for l in o.stdout.split("\n"))
        caught[c] = dict(exit=o.returncode, violation_lines=nv, without_failing_input=nofound, first_message=first[:300])
        ran.append("VERIF_REPO=<changed tree> ./check %s -> exit %d, %d VIOLATION line(s)" % (c, o.returncode, nv))
    d = "/verif/seeded/" + sid
    os.makedirs(d, exist_ok=True)
    open(d + "/patch.diff", "w").write(patch)
    shutil.copy(demo, d + "/demo.py")
    json.dump(dict(id=sid, property=prop, summary=summary, needs_to_manifest=needs,
                   demonstration="demo.py: exits 0 (PASS) on /repo, exits 1 (FAIL) with patch.diff applied",
                   existing_tests="whole suite passes with the change (only the 3 network tests of test_sample_simple_cur fail, as on the clean tree)",
                   what_i_ran=ran, detected_by=caught,
                   repo_head=sh("git -C /repo rev-parse --short HEAD").stdout.strip()),
              open(d + "/meta.json", "w"), indent=1)
    print(sid, {c: (v["exit"], v["violation_lines"]) for c, v in caught.items()})
finally:
    sh("git -C /repo worktree remove --force %s" % wt)
