#!/usr/bin/env python3
"""One-off/idempotent: builds harness/props/cXX.meta.json for the properties whose manifest row lived in
tools/manifest_table.py (C01, C02, C06, C08) from that row + MY_NOTES + harness/props/cXX.ext_notes.md."""
import json, os, re, sys
sys.path.insert(0, "/verif/tools")
import importlib
mt = importlib.import_module("manifest_table")
for pid in ("C01", "C02", "C06", "C08"):
    lo = pid.lower()
    row = dict(mt.ORIG_CHECKS[pid]) if hasattr(mt, "ORIG_CHECKS") else dict(mt.CHECKS[pid])
    notes = (mt.ORIG_NOTES if hasattr(mt, "ORIG_NOTES") else mt.MY_NOTES)[pid]
    ext = open("/verif/harness/props/%s.ext_notes.md" % lo).read()
    secs = re.split(r"^## ", ext, flags=re.M)[1:]
    text, note, dn = row["text"], row["note"], notes
    for s in secs:
        head, body = s.split("\n", 1)
        body = body.strip()
        h = head.lower()
        if "design_notes" in h:
            dn = dn.rstrip() + "\n\n" + body
        elif "text" in h:
            text = body if "replace" in h else text.rstrip() + " " + body
        elif "note" in h:
            note = body if "replace" in h else note.rstrip() + " " + body
    meta = dict(claimed=True, text=re.sub(r"\s*\n\s*", " ", text), note=re.sub(r"\s*\n\s*", " ", note),
                technique=row.get("technique", "machine-checked proof in Coq 8.16.1 over a hand-written executable model + per-run correspondence check against /repo"),
                design_notes=dn)
    json.dump(meta, open("/verif/harness/props/%s.meta.json" % lo, "w"), indent=1)
    print(pid, len(text), len(note), len(dn))
