#!/usr/bin/env python3
"""Record the AST hashes of every anchored function (per property) as of now: the state of
/repo against which the models were last validated. Used only for the informational
anchor-drift report; run after a full green pass:  PYTHONPATH=/verif python3 tools/record_anchors.py"""
import importlib, json, os, sys
sys.path.insert(0, "/verif")
from harness import common as C
out = {}
for f in sorted(os.listdir("/verif/harness/props")):
    if f.startswith("c") and f.endswith(".py"):
        try:
            m = importlib.import_module("harness.props." + f[:-3])
        except Exception as e:  # noqa
            print("skip", f, e)
            continue
        if hasattr(m, "ANCHORS"):
            out[f[:-3].upper()] = C.ast_hashes(m.ANCHORS)
out["_files"] = C.file_hashes()
json.dump(out, open("/verif/harness/anchor_hashes.json", "w"), indent=1, sort_keys=True)
print("recorded", sorted(out))
