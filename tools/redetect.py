#!/usr/bin/env python3
"""tools/redetect.py [-j N] [--only-missed] [ids...]
Re-runs, for every kept seeded change (seeded/<id>/), the checks recorded in its meta.json against a
scratch worktree of /repo HEAD with the patch applied, and rewrites `detected_by` (plus `redetected_at`
= /verif commit).  Used after checks were strengthened.  Never touches /repo's working tree."""
import glob, json, os, subprocess, sys
from concurrent.futures import ThreadPoolExecutor

for v in ("OMP_NUM_THREADS", "OPENBLAS_NUM_THREADS", "MKL_NUM_THREADS"):
    os.environ.setdefault(v, "1")
args = sys.argv[1:]
jobs = 3
only_missed = False
if "-j" in args:
    i = args.index("-j"); jobs = int(args[i + 1]); del args[i:i + 2]
if "--only-missed" in args:
    only_missed = True; args.remove("--only-missed")


def sh(cmd):
    return subprocess.run(cmd, shell=True, capture_output=True, text=True)


head = sh("git -C /verif rev-parse --short HEAD").stdout.strip()


def one(d):
    mp = os.path.join(d, "meta.json")
    m = json.load(open(mp))
    sid = m["id"]
    checks = list(m.get("detected_by", {}).keys()) or [m["property"]]
    if m["property"] not in checks:
        checks.insert(0, m["property"])
    if only_missed and m.get("detected_by", {}).get(m["property"], {}).get("exit") == 1:
        return sid, "skipped (own property already detects)"
    wt = "/tmp/redet_" + sid
    sh("git -C /repo worktree remove --force %s" % wt)
    if sh("git -C /repo worktree add -q %s HEAD" % wt).returncode != 0:
        return sid, "worktree failed"
    try:
        if sh("git -C %s apply %s/patch.diff" % (wt, d)).returncode != 0:
            # /repo moved on (fix: commits): try a 3-way merge, keep the rebased patch and re-confirm the demo
            if sh("git -C %s apply --3way %s/patch.diff" % (wt, d)).returncode != 0:
                return sid, "PATCH NO LONGER APPLIES"
            sh("git -C %s reset -q" % wt)
            clean = sh("PYTHONPATH=/repo/src /venv/bin/python %s/demo.py" % d).returncode
            mut = sh("PYTHONPATH=%s/src /venv/bin/python %s/demo.py" % (wt, d)).returncode
            if clean != 0 or mut == 0:
                return sid, "REBASED PATCH: demo no longer discriminates (clean rc %d, changed rc %d)" % (clean, mut)
            open(os.path.join(d, "patch.diff"), "w").write(sh("git -C %s diff -- src" % wt).stdout)
            m["rebased_onto"] = sh("git -C /repo rev-parse --short HEAD").stdout.strip()
        caught = {}
        for c in checks:
            o = sh("cd /verif && VERIF_REPO=%s VERIF_DRIFT_PASSES=%s ./check %s" % (wt, os.environ.get("VERIF_DRIFT_PASSES", "3"), c))
            lines = o.stdout.split("\n")
            nv = len([l for l in lines if l.startswith("VIOLATION")])
            first = next((l for l in lines if l.startswith("# ") and "source drift" not in l), "")
            caught[c] = dict(exit=o.returncode, violation_lines=nv,
                             without_failing_input=sum("no-failing-input-found" in l for l in lines),
                             first_message=first[:300])
        m["detected_by"] = caught
        m["redetected_at"] = head
        json.dump(m, open(mp, "w"), indent=1)
        return sid, {c: (v["exit"], v["violation_lines"]) for c, v in caught.items()}
    finally:
        sh("git -C /repo worktree remove --force %s" % wt)


dirs = sorted(glob.glob("/verif/seeded/*/"))
if args:
    dirs = [d for d in dirs if os.path.basename(d.rstrip("/")) in args or any(os.path.basename(d.rstrip("/")).startswith(a) for a in args)]
with ThreadPoolExecutor(max_workers=jobs) as ex:
    for sid, res in ex.map(one, dirs):
        print(sid, res, flush=True)
