#!/bin/bash
# tools/run_all.sh [tier] [jobs] [props...] : run every check against /repo, print one line per property
tier=${1:-quick}; jobs=${2:-4}; shift 2 2>/dev/null
props=${@:-C01 C02 C03 C04 C05 C06 C07 C08 C09 C10 C11 C12 C13 C14 C15 C16 C17 C18 C19 C20}
mkdir -p /verif/replays/tmp_logs
cd /verif
echo $props | tr ' ' '\n' | xargs -P $jobs -I{} sh -c "s=\$(date +%s); ./check {} --tier $tier > replays/tmp_logs/{}.$tier.log 2>&1; rc=\$?; e=\$(date +%s); echo {} exit=\$rc wall=\$((e-s))s viol=\$(grep -c '^VIOLATION' replays/tmp_logs/{}.$tier.log) known=\$(grep -c '^KNOWN-FINDING' replays/tmp_logs/{}.$tier.log)"
