#!/bin/bash
# tools/try_mutation.sh <name> <patch.diff> <demo.py> <check ids...>
# Applies the patch to a scratch worktree of /repo HEAD, confirms the demo fails there and passes on
# /repo, runs the named checks against the worktree, prints which ones report a VIOLATION.
export OMP_NUM_THREADS=1 OPENBLAS_NUM_THREADS=1 MKL_NUM_THREADS=1
name=$1; patch=$2; demo=$3; shift 3
wt=/tmp/try_$name
git -C /repo worktree remove --force $wt 2>/dev/null
git -C /repo worktree add -q $wt HEAD || exit 2
if ! git -C $wt apply $patch 2>/dev/null; then
  git -C $wt apply --3way $patch 2>/dev/null || { echo "PATCH DOES NOT APPLY: $patch"; git -C /repo worktree remove --force $wt; exit 2; }
fi
echo "== $name: demo on clean /repo:"; PYTHONPATH=/repo/src /venv/bin/python $demo 2>&1 | tail -1; echo "rc=$?"
echo "== $name: demo on mutated tree:"; PYTHONPATH=$wt/src /venv/bin/python $demo 2>&1 | tail -2
for c in "$@"; do
  out=$(cd /verif && VERIF_REPO=$wt ./check $c 2>&1); rc=$?
  nv=$(echo "$out" | grep -c '^VIOLATION')
  echo "== $name: check $c -> exit $rc, $nv VIOLATION line(s)"; echo "$out" | grep -A3 Traceback | head -4; echo "$out" | grep '^#' | sed 's/[0-9]\+/N/g' | sort | uniq -c | sort -rn | head -4
done
git -C /repo worktree remove --force $wt
