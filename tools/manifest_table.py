FIX_COMMITS = ["80473c8 greedy selectors never re-select an already selected item (C01/C02)"]
NOT_BUILT = "check not built yet in this round (planned as machine-checked proof, see DESIGN.md §4); not claimed until its model, theorems and correspondence run"
CHECKS = {
 "C02": dict(
   text="Theorems (Coq, closed under the global context, unbounded in sizes/steps): the FPS/PCov-FPS distance table equals the true minimum distance to the selected set after any number of steps; every loop step selects a first arg-max of it among unselected candidates; get_select_distance equals the true minima and is non-increasing; initial selections are kept; sample/feature duality. The exact-integer model is compared bit for bit with the implementation on generated integer-lattice inputs on every run.",
   note="Trusted: Coq kernel + vm_compute; the Python correspondence harness; the hand-written model coq/Model/{Greedy,FPS}.v (tied to the code only by the per-run correspondence); exactness of binary64 on the integer domain. Feature-direction PCov-FPS distance matrix (eigh) is not in this check (C03). IEEE rounding on non-integer data is outside the theorems."),
}
NOT_APPLICABLE = {p: NOT_BUILT for p in ["C%02d" % i for i in range(1, 21)]}
